package rules

import (
	"go/ast"
	"go/types"

	"gengoverif/checker/internal/core"
)

// A typeFact says: at this point the dynamic type of Operand is Type, and Binding (if any) is the
// operand asserted to that type. Two spellings give the same fact:
//
//	switch x := E.(type) { case T: <here> }     single-type clause; Binding = x of that clause
//	if x, ok := E.(T); ok { <here> }            (or any dominating true edge of ok); Binding = x
type typeFact struct {
	Operand ast.Expr
	Type    types.Type
	Binding *types.Var
	Scope   ast.Node // the clause / the statement that establishes the fact
}

func typeFactsAt(f *core.Func, at ast.Node) []typeFact {
	info := f.Info()
	var out []typeFact
	// enclosing single-type clauses of type switches
	path := core.PathTo(f.Root().Body, at)
	for k := len(path) - 1; k >= 0; k-- {
		cc, ok := path[k].(*ast.CaseClause)
		if !ok || k == 0 {
			continue
		}
		// the clause's switch
		var ts *ast.TypeSwitchStmt
		for j := k - 1; j >= 0; j-- {
			if t, ok := path[j].(*ast.TypeSwitchStmt); ok {
				ts = t
				break
			}
			if _, isBlock := path[j].(*ast.BlockStmt); !isBlock {
				break
			}
		}
		if ts == nil || len(cc.List) != 1 {
			continue
		}
		var ta *ast.TypeAssertExpr
		switch a := ts.Assign.(type) {
		case *ast.AssignStmt:
			ta, _ = a.Rhs[0].(*ast.TypeAssertExpr)
		case *ast.ExprStmt:
			ta, _ = a.X.(*ast.TypeAssertExpr)
		}
		if ta == nil {
			continue
		}
		b, _ := info.Implicits[cc].(*types.Var)
		out = append(out, typeFact{Operand: ta.X, Type: info.TypeOf(cc.List[0]), Binding: b, Scope: cc})
	}
	// dominating comma-ok assertions
	g := graph(f)
	for _, fct := range g.FactsAt(g.PointOf(at)) {
		v := core.VarOf(info, fct.Cond)
		if v == nil || !fct.Val || fct.Tag != nil {
			continue
		}
		d, ok := core.SingleDef(info, f.Root().Body, v)
		if !ok || d.Index != 1 {
			continue
		}
		ta, ok := ast.Unparen(d.Rhs).(*ast.TypeAssertExpr)
		if !ok || ta.Type == nil {
			continue
		}
		var b *types.Var
		if as, isAs := d.Stmt.(*ast.AssignStmt); isAs && len(as.Lhs) == 2 {
			b = core.VarOf(info, as.Lhs[0])
		}
		out = append(out, typeFact{Operand: ta.X, Type: info.TypeOf(ta.Type), Binding: b, Scope: d.Stmt})
	}
	return out
}
