package rules

import (
	"go/ast"
	"go/types"

	"gengoverif/checker/internal/core"
)

// A typeFact says: at this point the dynamic type of Operand is Type, and Binding (if any) is the
// operand asserted to that type. Two spellings give the same fact:
//
//	switch x := E.(type) { case T: <here> }     single-type clause; Binding = x of that clause
//	if x, ok := E.(T); ok { <here> }            (or any dominating true edge of ok); Binding = x
type typeFact struct {
	Operand ast.Expr
	Type    types.Type
	Binding *types.Var
	Scope   ast.Node // the clause / the statement that establishes the fact
}

func typeFactsAt(f *core.Func, at ast.Node) []typeFact {
	info := f.Info()
	var out []typeFact
	// enclosing single-type clauses of type switches
	path := core.PathTo(f.Root().Body, at)
	for k := len(path) - 1; k >= 0; k-- {
		cc, ok := path[k].(*ast.CaseClause)
		if !ok || k == 0 {
			continue
		}
		// the clause's switch
		var ts *ast.TypeSwitchStmt
		for j := k - 1; j >= 0; j-- {
			if t, ok := path[j].(*ast.TypeSwitchStmt); ok {
				ts = t
				break
			}
			if _, isBlock := path[j].(*ast.BlockStmt); !isBlock {
				break
			}
		}
		if ts == nil || len(cc.List) != 1 {
			continue
		}
		var ta *ast.TypeAssertExpr
		switch a := ts.Assign.(type) {
		case *ast.AssignStmt:
			ta, _ = a.Rhs[0].(*ast.TypeAssertExpr)
		case *ast.ExprStmt:
			ta, _ = a.X.(*ast.TypeAssertExpr)
		}
		if ta == nil {
			continue
		}
		b, _ := info.Implicits[cc].(*types.Var)
		out = append(out, typeFact{Operand: ta.X, Type: info.TypeOf(cc.List[0]), Binding: b, Scope: cc})
	}
	// dominating comma-ok assertions
	g := graph(f)
	for _, fct := range g.FactsAt(g.PointOf(at)) {
		v := core.VarOf(info, fct.Cond)
		if v == nil || !fct.Val || fct.Tag != nil {
			continue
		}
		d, ok := core.SingleDef(info, f.Root().Body, v)
		if !ok || d.Index != 1 {
			continue
		}
		ta, ok := ast.Unparen(d.Rhs).(*ast.TypeAssertExpr)
		if !ok || ta.Type == nil {
			continue
		}
		var b *types.Var
		if as, isAs := d.Stmt.(*ast.AssignStmt); isAs && len(as.Lhs) == 2 {
			b = core.VarOf(info, as.Lhs[0])
		}
		out = append(out, typeFact{Operand: ta.X, Type: info.TypeOf(ta.Type), Binding: b, Scope: d.Stmt})
	}
	return out
}

// A typeDispatch is a first-match dispatch on the dynamic type of one operand. Two spellings are the same dispatch:
//
//	switch x := E.(type) { case T1: A1  case T2: A2  default: D }
//	if x, ok := E.(T1); ok { A1; return }  if x, ok := E.(T2); ok { A2; return }  D       (also as an else-if chain)
//
// Arms are in matching order; Default is what runs when no arm matches (nil: nothing).
type dispatchArm struct {
	Type types.Type
	Body ast.Node // the clause / the body of the if
}

type typeDispatch struct {
	In      *core.Func
	Pos     ast.Node
	Operand ast.Expr
	Arms    []dispatchArm
	Default []ast.Stmt
	HasDef  bool
}

func (d *typeDispatch) arm(name string) (int, ast.Node) {
	for i, a := range d.Arms {
		n := core.NamedTypeName(a.Type)
		if n == "" && a.Type != nil {
			n = a.Type.String()
		}
		if n == name {
			return i + 1, a.Body
		}
	}
	return 0, nil
}

// typeDispatchIn finds the dispatch of a function body: its first type switch, or else the longest run of
// terminating comma-ok ifs on one operand in one block.
func typeDispatchIn(f *core.Func) *typeDispatch {
	info := f.Info()
	var ts *ast.TypeSwitchStmt
	ast.Inspect(f.Body, func(n ast.Node) bool {
		if lit, ok := n.(*ast.FuncLit); ok && lit != f.Lit {
			return false
		}
		if x, ok := n.(*ast.TypeSwitchStmt); ok && ts == nil {
			ts = x
		}
		return ts == nil
	})
	if ts != nil {
		d := &typeDispatch{In: f, Pos: ts}
		switch a := ts.Assign.(type) {
		case *ast.AssignStmt:
			if ta, ok := a.Rhs[0].(*ast.TypeAssertExpr); ok {
				d.Operand = ta.X
			}
		case *ast.ExprStmt:
			if ta, ok := a.X.(*ast.TypeAssertExpr); ok {
				d.Operand = ta.X
			}
		}
		for _, c := range ts.Body.List {
			cc := c.(*ast.CaseClause)
			if cc.List == nil {
				d.Default, d.HasDef = cc.Body, true
			}
			for _, e := range cc.List {
				d.Arms = append(d.Arms, dispatchArm{Type: info.TypeOf(e), Body: cc})
			}
		}
		return d
	}
	// comma-ok chain
	armOf := func(ifs *ast.IfStmt) (ast.Expr, types.Type, bool) {
		as, ok := ifs.Init.(*ast.AssignStmt)
		if !ok || len(as.Lhs) != 2 || len(as.Rhs) != 1 {
			return nil, nil, false
		}
		ta, ok := ast.Unparen(as.Rhs[0]).(*ast.TypeAssertExpr)
		if !ok || ta.Type == nil {
			return nil, nil, false
		}
		okv := core.VarOf(info, as.Lhs[1])
		if okv == nil || core.VarOf(info, ifs.Cond) != okv {
			return nil, nil, false
		}
		return ta.X, info.TypeOf(ta.Type), true
	}
	terminates := func(b *ast.BlockStmt) bool {
		switch x := lastStmt(b.List).(type) {
		case *ast.ReturnStmt:
			return true
		case *ast.ExprStmt:
			if c, ok := x.X.(*ast.CallExpr); ok && core.CalleeName(info, c) == "builtin.panic" {
				return true
			}
		}
		return false
	}
	var best *typeDispatch
	ast.Inspect(f.Body, func(n ast.Node) bool {
		if lit, ok := n.(*ast.FuncLit); ok && lit != f.Lit {
			return false
		}
		blk, ok := n.(*ast.BlockStmt)
		if !ok {
			return true
		}
		var d *typeDispatch
		flush := func(rest []ast.Stmt) {
			if d != nil && len(d.Arms) >= 2 && (best == nil || len(d.Arms) > len(best.Arms)) {
				d.Default, d.HasDef = rest, len(rest) > 0
				best = d
			}
			d = nil
		}
		for i, st := range blk.List {
			ifs, isIf := st.(*ast.IfStmt)
			if !isIf {
				flush(blk.List[i:])
				continue
			}
			// an if / else-if chain, every link a comma-ok assertion on the same operand
			var arms []dispatchArm
			var operand ast.Expr
			good := true
			var tail []ast.Stmt
			for cur := ifs; cur != nil && good; {
				op, t, isArm := armOf(cur)
				if !isArm || (operand != nil && !core.SameRef(info, operand, op)) {
					good = false
					break
				}
				operand = op
				arms = append(arms, dispatchArm{Type: t, Body: cur.Body})
				switch e := cur.Else.(type) {
				case nil:
					cur = nil
				case *ast.IfStmt:
					cur = e
				case *ast.BlockStmt:
					tail, cur = e.List, nil
				}
			}
			chained := ifs.Else != nil
			if good && !chained && !terminates(ifs.Body) {
				good = false // a non-terminating arm lets later arms run too: not a first-match dispatch
			}
			if !good || (d != nil && !core.SameRef(info, d.Operand, operand)) {
				flush(blk.List[i:])
				if !good {
					continue
				}
			}
			if d == nil {
				d = &typeDispatch{In: f, Pos: ifs, Operand: operand}
			}
			d.Arms = append(d.Arms, arms...)
			if chained {
				// an else-if chain is complete in itself: what follows it runs for every arm that falls out
				if tail != nil {
					flush(tail)
				} else {
					flush(nil)
				}
			}
		}
		flush(nil)
		return true
	})
	return best
}

// typeFactsNegAt: at this point the dynamic type of Operand is known NOT to be Type: the false edge of a comma-ok
// assertion dominates, or the point lies in a later clause (or the default) of a type switch that has a clause for Type.
func typeFactsNegAt(f *core.Func, at ast.Node) []typeFact {
	info := f.Info()
	var out []typeFact
	path := core.PathTo(f.Root().Body, at)
	for k := len(path) - 1; k >= 1; k-- {
		cc, ok := path[k].(*ast.CaseClause)
		if !ok {
			continue
		}
		var ts *ast.TypeSwitchStmt
		for j := k - 1; j >= 0; j-- {
			if t, ok := path[j].(*ast.TypeSwitchStmt); ok {
				ts = t
				break
			}
			if _, isBlock := path[j].(*ast.BlockStmt); !isBlock {
				break
			}
		}
		if ts == nil {
			continue
		}
		var ta *ast.TypeAssertExpr
		switch a := ts.Assign.(type) {
		case *ast.AssignStmt:
			ta, _ = a.Rhs[0].(*ast.TypeAssertExpr)
		case *ast.ExprStmt:
			ta, _ = a.X.(*ast.TypeAssertExpr)
		}
		if ta == nil {
			continue
		}
		for _, c := range ts.Body.List {
			other := c.(*ast.CaseClause)
			if other == cc {
				if cc.List != nil {
					break // clauses after this one say nothing
				}
				continue
			}
			for _, e := range other.List {
				out = append(out, typeFact{Operand: ta.X, Type: info.TypeOf(e), Scope: other})
			}
		}
	}
	g := graph(f)
	for _, fct := range g.FactsAt(g.PointOf(at)) {
		v := core.VarOf(info, fct.Cond)
		if v == nil || fct.Val || fct.Tag != nil {
			continue
		}
		d, ok := core.SingleDef(info, f.Root().Body, v)
		if !ok || d.Index != 1 {
			continue
		}
		ta, ok := ast.Unparen(d.Rhs).(*ast.TypeAssertExpr)
		if !ok || ta.Type == nil {
			continue
		}
		out = append(out, typeFact{Operand: ta.X, Type: info.TypeOf(ta.Type), Scope: d.Stmt})
	}
	return out
}
