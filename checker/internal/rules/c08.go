package rules

import (
	"go/ast"
	"go/constant"
	"go/token"
	"go/types"
	"strings"

	"gengoverif/checker/internal/cfgx"
	"gengoverif/checker/internal/core"
)

func init() {
	register(Property{
		ID:          "C08",
		Explanation: "Decided statically: R1 the skip predicate (anchor: the function whose result guards the early return of the per-package function) returns either the constant 'changed' or `previous.Sum(k) != current.Sum(k)` for the same key k it was asked about, with previous = the loaded gengo.sum and current = the universe's load-time sums, and that comparison is reached only when Force is off and both files exist; the early return is taken only on its 'unchanged' answer for the package being executed; R2 the only dirhash.HashDir call hashes the package's own directory with Hash1 and its result is stored under the same package's path, nothing else writes the sums, and sums are computed in Load (before Execute); R3 every error return of sumfile.Load returns a nil file and Execute stores that result unconditionally (missing/unreadable gengo.sum => nothing is skipped); R4 what is saved is the universe's load-time file, only its Dir is adopted from the loaded one, and Load/Save use the same file name constant; R5 file format - the writer emits key, one space, value, newline for every key of the sorted key list; the reader splits lines, then whitespace fields, takes fields 0 and 1 under a length guard (reader and writer agree). C02.R5 covers 'a failing run or a crash does not update the sums'. R4 also: Save has no path that returns without an error before the sorted sums were written. R2 also: outside pkg/sumfile nothing deletes from, clears, copies into or replaces the table of recorded sums. R3 also: once reading gengo.sum failed no return hands out a file; R6 every GeneratorArgs value the library builds from another one carries every field (Force, All ...). R7/R8: a directory is recorded as generated only when it was (C02.R4: a failing or interrupted stage fails Execute before the save; C06.R1: a processed package had every enabled type dispatched). R9 the sum file is not part of the directory hash it records (the hash function handed to HashDir drops the file named like the sum file, and nothing else) - a genuine defect of the pinned tree, repaired (9c28816). NOT decided: hash collisions; convergence of repeated runs on unchanged input beyond the necessary condition R9 (behaviour over histories; generated files are themselves hashed).",
		Assumptions: append([]string{"dirhash.HashDir(dir, \"\", Hash1) changes whenever a file of the directory is created, edited or deleted (third-party, trusted)"}, commonAssumptions...),
		Run:         runC08,
	})
}

func runC08(p *core.Program, r *core.Report) {
	pl := findPipeline(p, r, "R1")
	if pl == nil {
		return
	}
	c08R1(p, r, pl)
	c08R2(p, r)
	c08R3(p, r, pl)
	c08R4(p, r, pl)
	c08R5(p, r)
	c08R6(p, r)
	// R7: a directory is recorded as generated only when it was: the run that records the sums returned no error for any
	// package (C02.R4: every error of a stage reaches Execute's result, nothing is swallowed on the way), and a package
	// that was processed had every enabled type dispatched (C06.R1: the dispatch visits all types, no early exit)
	chainRules(p, r, "R7", "C02", []string{"C02.R4"}, "a failing or interrupted stage makes Execute fail before the sums are saved")
	chainRules(p, r, "R8", "C06", []string{"C06.R1"}, "a processed package had every enabled type dispatched")
}

func c08R1(p *core.Program, r *core.Report, pl *pipeline) {
	const rule = "R1"
	r.Floor(rule, 4)
	f := pl.pkgExec
	info := f.Info()
	g := graph(f)
	// the skip decision: a boolean predicate of the package (a function that compares the sums), or - when that function
	// was merged into this one - a boolean local that holds its answer (every assignment to it is an answer)
	sumName := core.GM("pkg/sumfile", "*File", "Sum")
	var pred *core.Func
	var predCall *ast.CallExpr
	for _, br := range g.Branches() {
		for _, c := range core.Calls(br.Cond, true) {
			if callee := p.FuncOfObj(core.CalleeFunc(info, c)); callee != nil && callee.Pkg == f.Pkg && callee.Type.Results != nil && len(callee.Type.Results.List) == 1 {
				if b, ok := info.TypeOf(c).Underlying().(*types.Basic); ok && b.Kind() == types.Bool && pred == nil {
					if fl := flatten(p, callee); fl != nil && len(core.CallsTo(fl.Info(), fl.Body, true, sumName)) > 0 {
						pred, predCall = fl, c
					}
				}
			}
		}
	}
	var flag *types.Var
	if pred == nil {
		ast.Inspect(f.Body, func(n ast.Node) bool {
			as, ok := n.(*ast.AssignStmt)
			if !ok || len(as.Lhs) != 1 || len(as.Rhs) != 1 {
				return true
			}
			v := core.VarOf(info, as.Lhs[0])
			if v == nil || v.IsField() || isParamOf(f, v) {
				return true
			}
			if bt, isB := v.Type().Underlying().(*types.Basic); !isB || bt.Kind() != types.Bool {
				return true
			}
			if len(core.CallsTo(info, as.Rhs[0], true, sumName)) > 0 && flag == nil {
				flag = v
			}
			return true
		})
	}
	if pred == nil && flag == nil {
		r.Anchor(rule, "boolean skip predicate tested at the start of the per-package function")
		return
	}
	// isPred: the expression is the predicate's answer (the call, or the flag)
	isPred := func(e ast.Expr) bool {
		e = ast.Unparen(e)
		if pred != nil {
			c, ok := e.(*ast.CallExpr)
			return ok && c == predCall
		}
		return core.VarOf(info, e) == flag
	}
	mentionsPred := func(e ast.Expr) bool {
		hit := false
		ast.Inspect(e, func(n ast.Node) bool {
			if x, ok := n.(ast.Expr); ok && isPred(x) {
				hit = true
			}
			return !hit
		})
		return hit
	}
	// the answers: (expression, point, graph, body) - returns of the predicate, or assignments to the flag
	type answer struct {
		e    ast.Expr
		at   cfgxPoint
		g    *cfgx.G
		in   *core.Func
		node ast.Node
	}
	var answers []answer
	var key *types.Var
	var predPos token.Pos
	if pred != nil {
		predPos = predCall.Pos()
		pg := graph(pred)
		if ps := pred.Type.Params.List; len(ps) == 1 && len(ps[0].Names) == 1 {
			key, _ = pred.Info().ObjectOf(ps[0].Names[0]).(*types.Var)
		}
		for _, rp := range pg.Points(func(n ast.Node) bool { _, ok := n.(*ast.ReturnStmt); return ok }) {
			ret := rp.Node().(*ast.ReturnStmt)
			if len(ret.Results) == 1 {
				answers = append(answers, answer{ret.Results[0], rp, pg, pred, ret})
			}
		}
	} else {
		for _, dp := range g.Points(func(n ast.Node) bool { return g.Assigns(n, flag) }) {
			if as, ok := dp.Node().(*ast.AssignStmt); ok && len(as.Rhs) == 1 && len(as.Lhs) == 1 {
				answers = append(answers, answer{as.Rhs[0], dp, g, f, as})
				if predPos == token.NoPos {
					predPos = as.Pos()
				}
			} else if dp.Node() != nil {
				answers = append(answers, answer{nil, dp, g, f, dp.Node()})
			}
		}
		// the key: the parameter the package is looked up with
		for _, c := range core.CallsTo(info, f.Body, true, core.GM("pkg/types", "*Universe", "Package")) {
			if v := core.VarOf(info, c.Args[0]); v != nil && isParamOf(f, v) {
				key = v
			}
		}
	}
	// early return taken only when the predicate answered false, for the function's own package argument
	argOK, samePkg := false, false
	if pred != nil {
		argOK = len(predCall.Args) == 1 && core.VarOf(info, predCall.Args[0]) != nil && isParamOf(f, core.VarOf(info, predCall.Args[0]))
		for _, c := range core.CallsTo(info, f.Body, true, core.GM("pkg/types", "*Universe", "Package")) {
			if argOK && core.SameRef(info, c.Args[0], predCall.Args[0]) {
				samePkg = true
			}
		}
	} else {
		argOK, samePkg = key != nil, key != nil // the answers are judged against this key below
	}
	r.Check(argOK && samePkg, rule, f, "the skip decision is asked for the package that is executed", predPos, "predicate(pkg) and universe.Package(pkg) use the same parameter", "the skip predicate is asked about another key than the package being executed")
	// (a) a cached return exists under predicate == false, with no work before it
	early := 0
	for _, rp := range g.Points(func(n ast.Node) bool { _, ok := n.(*ast.ReturnStmt); return ok }) {
		for _, fct := range g.FactsAt(rp) {
			if isPred(fct.Cond) && !fct.Val {
				early++
			}
		}
	}
	r.Check(early >= 1, rule, f, "an unchanged package returns early", predPos, "a return under predicate == false", "no early return on the 'unchanged' answer: the cache never skips (or the predicate's answer is not used)")
	// (b) on the 'changed' answer the package is always looked up and processed
	var work cfgxPoint
	for _, c := range core.CallsTo(info, f.Body, true, core.GM("pkg/types", "*Universe", "Package")) {
		work = g.PointOf(c)
	}
	var predBr *cfgBlock
	predTrue := 0
	for _, br := range g.Branches() {
		if mentionsPred(br.Cond) && predBr == nil {
			predBr = br.B
			// which successor means predicate == true?
			for _, a := range cfgxAtoms(br.Cond, true) {
				if isPred(a.Cond) && !a.Val {
					predTrue = 1
				}
			}
		}
	}
	if predBr == nil || !work.Valid() {
		r.Anchor(rule, "branch on the skip predicate / package lookup")
	} else {
		_, escapes := g.Reach(cfgxPoint{B: predBr.Succs[predTrue], I: 0}, true, cfgxQuery{
			Target: func(q cfgxPoint) bool { return g.IsExit(q) },
			Cut:    func(q cfgxPoint) bool { return q == work },
		})
		r.Check(!escapes, rule, f, "a changed package is always processed", predPos, "from the 'changed' edge every path reaches the package lookup", "on the 'changed' answer the function can still return without processing the package: a changed package is skipped")
		r.Check(g.EdgeDominates(predBr, predTrue, work), rule, f, "processing happens only on the 'changed' answer", predPos, "package lookup dominated by predicate == true", "the package is processed although the predicate answered 'unchanged' (cache ineffective) or the answer is ignored")
	}
	// the answers themselves
	nret := 0
	for _, an := range answers {
		pinfo := an.in.Info()
		isPrev := func(e ast.Expr) bool {
			e, _ = core.Resolve(pinfo, an.in.Body, e)
			fld := core.FieldOf(pinfo, e)
			return isRole(p, fld, "ctx.sumFile")
		}
		isCur := func(e ast.Expr) bool {
			e, _ = core.Resolve(pinfo, an.in.Body, e)
			return core.AsCall(pinfo, e, core.GM("pkg/types", "*Universe", "SumFile")) != nil
		}
		nret++
		if an.e == nil {
			r.Bad(rule, an.in, "a package counts as unchanged only if recorded and current sum are equal for the same key", an.node.Pos(), "the skip flag is set by something else than a plain assignment")
			continue
		}
		if tv := pinfo.Types[an.e]; tv.Value != nil {
			r.Check(tv.Value.String() == "true", rule, an.in, "constant answer is 'changed'", an.node.Pos(), "return true", "the predicate has a constant 'unchanged' answer: a package is skipped without comparing sums")
			continue
		}
		b, ok := ast.Unparen(an.e).(*ast.BinaryExpr)
		good := false
		why := "the answer is not `previous.Sum(k) != current.Sum(k)`"
		if ok && b.Op == token.NEQ {
			l := core.AsCall(pinfo, b.X, sumName)
			rr := core.AsCall(pinfo, b.Y, sumName)
			if l != nil && rr != nil && len(l.Args) == 1 && len(rr.Args) == 1 {
				sameKey := core.VarOf(pinfo, l.Args[0]) == key && core.VarOf(pinfo, rr.Args[0]) == key && key != nil
				sides := (isPrev(recvOf(l)) && isCur(recvOf(rr))) || (isCur(recvOf(l)) && isPrev(recvOf(rr)))
				switch {
				case !sameKey:
					why = "the two sums are not looked up under the key the predicate was asked about"
				case !sides:
					why = "the comparison is not between the loaded gengo.sum (c.sumFile) and the universe's current sums"
				default:
					good = true
				}
			}
		} else if ok && b.Op == token.EQL {
			why = "the comparison is inverted (==): unchanged packages are regenerated and changed ones skipped"
		}
		r.Check(good, rule, an.in, "a package counts as unchanged only if recorded and current sum are equal for the same key", an.node.Pos(), "return previous.Sum(k) != current.Sum(k)", why)
		// guards
		facts := an.g.FactsAt(an.at)
		force, prevNN, curNN := false, false, false
		// the Force test may sit in front of the predicate's call instead (`!Force && !changed(pkg)`): what is known
		// where the predicate is called holds inside it
		if pred != nil {
			callerFacts := g.FactsAt(g.PointOf(predCall))
			if node := g.PointOf(predCall).Node(); node != nil {
				callerFacts = append(callerFacts, shortCircuitFacts(node, predCall)...)
			}
			for _, fct := range callerFacts {
				if fld := core.FieldOf(info, fct.Cond); fld != nil && fld.Name() == "Force" && !fct.Val {
					force = true
				}
			}
		}
		for _, fct := range facts {
			if fld := core.FieldOf(pinfo, fct.Cond); fld != nil && fld.Name() == "Force" && !fct.Val {
				force = true
			}
			if bb, ok := ast.Unparen(fct.Cond).(*ast.BinaryExpr); ok && ((bb.Op == token.EQL && !fct.Val) || (bb.Op == token.NEQ && fct.Val)) {
				for _, side := range []ast.Expr{bb.X, bb.Y} {
					if isPrev(side) {
						prevNN = true
					}
					if isCur(side) {
						curNN = true
					}
				}
			}
		}
		r.Check(force, rule, an.in, "Force disables skipping", an.node.Pos(), "comparison reached only when Force is false", "the sum comparison can decide although Force is set")
		r.Check(prevNN && curNN, rule, an.in, "a missing sum file means 'changed'", an.node.Pos(), "comparison reached only when both files are non-nil", "the comparison is reached with a missing previous/current sum file (nil)")
	}
	if nret == 0 {
		r.Anchor(rule, "return statements of the skip predicate")
	}
	// Sum: missing data/entry yields the empty string (never equal to a real hash)
	sf := p.FuncByName("pkg/sumfile", "(*File).Sum")
	if sf != nil {
		sf = flatten(p, sf)
		ok := true
		ast.Inspect(sf.Body, func(n ast.Node) bool {
			if ret, isRet := n.(*ast.ReturnStmt); isRet && len(ret.Results) == 1 {
				e := ast.Unparen(ret.Results[0])
				if s, isC := core.ConstString(sf.Info(), e); isC {
					if s != "" {
						ok = false
					}
				} else if ix, isIx := e.(*ast.IndexExpr); !isIx || core.FieldOf(sf.Info(), ix.X) == nil {
					ok = false
				}
			}
			return true
		})
		r.Check(ok, rule, sf, "Sum returns the recorded value or the empty string", sf.Node().Pos(), "return f.Data[k] / \"\"", "Sum does not simply return the recorded value (or \"\" when absent)")
	}
}

func c08R2(p *core.Program, r *core.Report) {
	const rule = "R2"
	r.Floor(rule, 3)
	hs := callersOf(p, "golang.org/x/mod/sumdb/dirhash.HashDir")
	if len(hs) != 1 {
		r.Bad(rule, nil, "exactly one directory hash site", token.NoPos, "expected one dirhash.HashDir call in scope, found "+itoa(int64(len(hs))))
		if len(hs) == 0 {
			return
		}
	}
	cs := hs[0]
	f := cs.In
	info := f.Info()
	dir, _ := core.Resolve(info, f.Body, cs.Call.Args[0])
	dsel, ok := ast.Unparen(dir).(*ast.SelectorExpr)
	okArgs := ok && dsel.Sel.Name == "Dir" && constStrIs(info, cs.Call.Args[1], "")
	dropsSumFile := false
	if okArgs {
		fn, isFn := info.ObjectOf(selIdent(cs.Call.Args[2])).(*types.Func)
		switch {
		case isFn && fn.FullName() == "golang.org/x/mod/sumdb/dirhash.Hash1":
		case isFn && p.FuncOfObj(fn) != nil:
			// a hash function of the library: Hash1 over the listed files, leaving out nothing but the sum file
			var why string
			dropsSumFile, why = hash1WithoutSumFile(p, p.FuncOfObj(fn))
			if why != "" {
				okArgs = false
			}
		default:
			okArgs = false
		}
	}
	r.Check(okArgs, rule, f, "the current sum is Hash1 of the package's own directory", cs.Call.Pos(), "HashDir(p.Dir, \"\", Hash1) - directly or through a function that leaves out nothing but the sum file", "the hash is not taken over the package directory (p.Dir) with dirhash.Hash1: edits in the package directory may not change it")
	// R9: "a run on unchanged inputs converges to a state where nothing is regenerated and nothing changes": the file the
	// hashes are recorded in is not part of what is hashed. DirFiles lists every file below the directory; for the package
	// in the module root that includes gengo.sum (sumfile.Save writes it to the module's Dir), whose content changes with
	// every hash recorded for that package - its recorded hash can never equal its next load-time hash.
	r.Floor("R9", 1)
	r.Check(dropsSumFile, "R9", f, "the sum file is not part of the directory hash it records", cs.Call.Pos(), "the hash function drops the file named like the sum file before hashing",
		"every file below the package directory is hashed, gengo.sum included when the package sits in the module root: recording that package's hash changes gengo.sum, which changes the package's next load-time hash - the package is regenerated and gengo.sum rewritten by every run, unchanged inputs never converge")
	// result stored under p.PkgPath of the same p
	var hv *types.Var
	g := graph(f)
	if as, isAs := g.PointOf(cs.Call).Node().(*ast.AssignStmt); isAs {
		hv = core.VarOf(info, as.Lhs[0])
	}
	stored := false
	nstores := 0
	for _, ff := range p.Funcs() {
		finfo := ff.Info()
		ast.Inspect(ff.Body, func(n ast.Node) bool {
			if lit, isLit := n.(*ast.FuncLit); isLit && lit != ff.Lit {
				return false
			}
			as, isAs := n.(*ast.AssignStmt)
			if !isAs {
				return true
			}
			for i, l := range as.Lhs {
				ix, isIx := ast.Unparen(l).(*ast.IndexExpr)
				if !isIx {
					continue
				}
				fld := core.FieldOf(finfo, ix.X)
				if fld == nil || fld.Name() != "Data" || !strings.HasSuffix(core.NamedTypeName(finfo.TypeOf(ix.X.(*ast.SelectorExpr).X)), "sumfile.File") {
					continue
				}
				if core.RelPkg(ff.Pkg.PkgPath) == "pkg/sumfile" && ff.Root().Name == "Load" { // also inside a callback of Load
					continue // the reader fills its own fresh file
				}
				nstores++
				if ff == f && hv != nil && core.VarOf(finfo, as.Rhs[i]) == hv {
					ksel, isSel := ast.Unparen(ix.Index).(*ast.SelectorExpr)
					if isSel && ksel.Sel.Name == "PkgPath" && ok && core.SameRef(finfo, ksel.X, dsel.X) {
						stored = true
					}
				}
			}
			return true
		})
	}
	// the other ways of writing a map: delete, clear, maps.Copy/Insert/DeleteFunc, replacing the map
	isSums := func(info *types.Info, e ast.Expr) bool {
		fld := core.FieldOf(info, e)
		if fld == nil || !isMapType(fld.Type()) {
			return false
		}
		own := ownerOf(fld)
		return own != nil && own.Pkg() != nil && core.RelPkg(own.Pkg().Path()) == "pkg/sumfile"
	}
	for _, ff := range p.Funcs() {
		if core.RelPkg(ff.Pkg.PkgPath) == "pkg/sumfile" {
			continue // the file type's own reader and writer (R4, R5)
		}
		finfo := ff.Info()
		body := ast.Node(ff.Body)
		if ff.Decl != nil && ff.Body != nil {
			body = flatten(p, ff).Body // a file built field by field is the literal it stands for
		}
		if body == nil || ff.Body == nil {
			continue
		}
		ast.Inspect(body, func(n ast.Node) bool {
			if lit, isLit := n.(*ast.FuncLit); isLit && lit != ff.Lit {
				return false
			}
			switch x := n.(type) {
			case *ast.CallExpr:
				switch core.CalleeName(finfo, x) {
				case "builtin.delete", "builtin.clear", "maps.Copy", "maps.Insert", "maps.DeleteFunc":
					if len(x.Args) >= 1 && isSums(finfo, x.Args[0]) {
						nstores++
						r.Bad(rule, ff, "the recorded sums are changed by "+core.ExprStr(x), x.Pos(), "an entry of the sum table is removed or replaced outside the loader: after a successful run gengo.sum no longer holds one line per local package with its load-time hash (the package is regenerated on every run, or a stale hash is trusted)")
					}
				}
			case *ast.AssignStmt:
				for _, l := range x.Lhs {
					if _, isIx := ast.Unparen(l).(*ast.IndexExpr); !isIx && isSums(finfo, l) {
						nstores++
						r.Bad(rule, ff, "the table of recorded sums is replaced: "+core.ExprStr(x), x.Pos(), "the sum table is replaced outside the sum file's own reader")
					}
				}
			}
			return true
		})
	}
	r.Check(stored && nstores == 1, rule, f, "the hash is recorded under the same package's path, and nothing else writes the sums", cs.Call.Pos(), "u.sumFile.Data[p.PkgPath] = HashDir(p.Dir)", "the directory hash is stored under another key than the hashed package's path, or the sums have a second writer")
	// computed at load: root is Load, whose only caller is NewContext
	root := f.Root()
	okWho := root.Name == "Load" && core.RelPkg(root.Pkg.PkgPath) == "pkg/types"
	if okWho {
		for _, c := range allCalls(p) {
			if core.CalleeFunc(c.In.Info(), c.Call) == root.Obj() && c.In.Root().Name != "NewContext" {
				okWho = false
			}
		}
	}
	r.Check(okWho, rule, root, "sums are computed when the universe is loaded (before any generation)", root.Node().Pos(), "HashDir is called in Load, called from NewContext only", "directory hashes are (re)computed outside Load: a sum taken after generation would record the generated state of a failed or partial run")
}

func selIdent(e ast.Expr) *ast.Ident {
	if s, ok := ast.Unparen(e).(*ast.SelectorExpr); ok {
		return s.Sel
	}
	return identOf(e)
}

func c08R3(p *core.Program, r *core.Report, pl *pipeline) {
	const rule = "R3"
	r.Floor(rule, 2)
	ld := p.FuncByName("pkg/sumfile", "Load")
	if ld == nil {
		r.Anchor(rule, "pkg/sumfile.Load")
		return
	}
	info := ld.Info()
	ok := true
	n := 0
	ast.Inspect(ld.Body, func(nd ast.Node) bool {
		ret, isRet := nd.(*ast.ReturnStmt)
		if !isRet || len(ret.Results) != 2 {
			return true
		}
		n++
		errNil := false
		if id, isID := ast.Unparen(ret.Results[1]).(*ast.Ident); isID && id.Name == "nil" {
			errNil = true
		}
		fileNil := false
		if id, isID := ast.Unparen(ret.Results[0]).(*ast.Ident); isID && id.Name == "nil" {
			fileNil = true
		}
		if !errNil && !fileNil {
			ok = false
		}
		return true
	})
	_ = info
	r.Check(ok && n >= 2, rule, ld, "an unreadable gengo.sum yields a nil file", ld.Node().Pos(), "every error return is `return nil, err`", "Load returns a non-nil (empty) file together with an error: with it, missing entries compare as \"\" and nothing protects against skipping")
	// ... on every path: once reading the file failed, no return hands out a file - also not with a nil error
	// ("a missing gengo.sum is an empty gengo.sum" removes the nil guard the skip predicate relies on)
	{
		fl := flatten(p, ld)
		finfo := fl.Info()
		g := graph(fl)
		nread, leak := 0, ""
		for _, eb := range errBranches(fl) {
			defs, _ := reachingDefs(g, eb.v, cfgx.Point{B: eb.br.B, I: len(eb.br.B.Nodes) - 1})
			fromRead := false
			for _, d := range defs {
				if len(core.CallsTo(finfo, d.Node(), true, "os.ReadFile", "os.Open", "os.OpenFile", "io.ReadAll")) > 0 {
					fromRead = true
				}
			}
			if !fromRead {
				continue
			}
			nread++
			tp, found := g.Reach(cfgx.Point{B: eb.br.B.Succs[eb.nonNil], I: 0}, true, cfgx.Query{Target: func(q cfgx.Point) bool {
				ret, isRet := q.Node().(*ast.ReturnStmt)
				if !isRet || len(ret.Results) != 2 {
					return false
				}
				id, isID := ast.Unparen(ret.Results[0]).(*ast.Ident)
				return !isID || id.Name != "nil"
			}})
			if found {
				leak = core.ExprStr(tp.Node())
			}
		}
		if nread == 0 {
			r.Anchor(rule, "error test of the read of gengo.sum in sumfile.Load")
		} else {
			r.Check(leak == "", rule, ld, "after a failed read no file is handed out", ld.Node().Pos(), "every return reachable from the error edge of the read returns a nil file", "`"+leak+"` is reachable after reading gengo.sum failed: a missing or unreadable gengo.sum yields a (non-nil, empty) file, the skip predicate's nil guard no longer fires and a package whose current sum is empty too (its directory could not be hashed) is skipped as cached")
		}
	}
	e := pl.execute
	einfo := e.Info()
	stored := false
	for _, c := range core.CallsTo(einfo, e.Body, true, core.G("pkg/sumfile.Load")) {
		g := graph(e)
		if as, isAs := g.PointOf(c).Node().(*ast.AssignStmt); isAs {
			if fld := core.FieldOf(einfo, as.Lhs[0]); isRole(p, fld, "ctx.sumFile") {
				stored = true
			}
		}
	}
	r.Check(stored, rule, e, "Execute stores Load's result unconditionally", e.Node().Pos(), "c.sumFile, _ = sumfile.Load(dir)", "the loaded sum file is not stored directly into c.sumFile (e.g. replaced by an empty file on error)")
}

func c08R4(p *core.Program, r *core.Report, pl *pipeline) {
	const rule = "R4"
	r.Floor(rule, 4)
	e := pl.execute
	info := e.Info()
	for _, c := range core.CallsTo(info, e.Body, true, core.GM("pkg/sumfile", "*File", "Save")) {
		recv, _ := core.Resolve(info, e.Body, recvOf(c))
		okRecv := core.AsCall(info, recv, core.GM("pkg/types", "*Universe", "SumFile")) != nil
		r.Check(okRecv, rule, e, "what is saved is the universe's load-time sums", c.Pos(), "receiver is universe.SumFile()", "Save is called on another file than the universe's load-time sums (e.g. the previously loaded gengo.sum): changed packages keep their old sums")
		// stores into the saved file before Save: only Dir
		if v := core.VarOf(info, recvOf(c)); v != nil {
			bad := ""
			ast.Inspect(e.Body, func(n ast.Node) bool {
				as, ok := n.(*ast.AssignStmt)
				if !ok {
					return true
				}
				for i, l := range as.Lhs {
					sel, ok := ast.Unparen(l).(*ast.SelectorExpr)
					if ok && core.VarOf(info, sel.X) == v {
						if sel.Sel.Name != "Dir" {
							bad = core.ExprStr(as)
						} else if rs, ok := ast.Unparen(as.Rhs[i]).(*ast.SelectorExpr); !ok || rs.Sel.Name != "Dir" {
							bad = core.ExprStr(as)
						}
					}
					if ix, ok := ast.Unparen(l).(*ast.IndexExpr); ok && core.Mentions(info, ix.X, v) {
						bad = core.ExprStr(as)
					}
				}
				return true
			})
			r.Check(bad == "", rule, e, "only the directory of the loaded file is adopted", c.Pos(), "sumFile.Dir = c.sumFile.Dir is the only modification", "the sums to be saved are modified in Execute: "+bad)
		}
	}
	// Save writes: no path returns without an error before the sorted sums were written
	// (e.g. "skip the write when the file already parses to the same mapping" leaves a
	// non-canonical gengo.sum in place after a successful run)
	if sv := pl.save; sv != nil {
		sinfo := sv.Info()
		sg := graph(sv)
		isWrite := func(q cfgxPoint) bool {
			if q.Node() == nil {
				return false
			}
			for _, c := range core.Calls(q.Node(), true) {
				name := core.CalleeName(sinfo, c)
				if (name == "(*os.File).Write" || name == "(*os.File).WriteString" || name == "os.WriteFile" || name == "io.Copy" || name == "io.WriteString") && !sg.InLit(c) {
					for _, a := range c.Args {
						for _, bc := range core.Calls(a, true) {
							if core.CalleeName(sinfo, bc) == core.GM("pkg/sumfile", "*File", "Bytes") {
								return true
							}
						}
						if e, _ := core.Resolve(sinfo, sv.Body, a); e != nil {
							if bc, ok := ast.Unparen(e).(*ast.CallExpr); ok && core.CalleeName(sinfo, bc) == core.GM("pkg/sumfile", "*File", "Bytes") {
								return true
							}
						}
					}
				}
			}
			return false
		}
		_, skips := sg.Reach(sg.Entry(), true, cfgx.Query{
			Target: func(q cfgxPoint) bool {
				ret, ok := q.Node().(*ast.ReturnStmt)
				if !ok {
					return false
				}
				// a return under `err != nil` reports a failure
				for _, fct := range sg.FactsAt(q) {
					if b, ok := ast.Unparen(fct.Cond).(*ast.BinaryExpr); ok && fct.Tag == nil {
						if id, ok := ast.Unparen(b.Y).(*ast.Ident); ok && id.Name == "nil" && isErrorType(sinfo.TypeOf(b.X)) && ((b.Op == token.NEQ && fct.Val) || (b.Op == token.EQL && !fct.Val)) {
							return false
						}
					}
				}
				_ = ret
				return true
			},
			Cut: isWrite,
		})
		r.Check(!skips, rule, sv, "Save writes the sums on every path that does not report an error", sv.Node().Pos(), "every non-error return is preceded by Write(f.Bytes())",
			"Save can return without an error and without writing: after a successful run gengo.sum is not (re)written in its canonical form")
	}
	// same file name constant in Load and Save
	names := map[string]bool{}
	for _, fn := range []string{"Load", "(*File).Save"} {
		f := p.FuncByName("pkg/sumfile", fn)
		if f == nil {
			continue
		}
		for _, c := range core.CallsTo(f.Info(), f.Body, true, "os.ReadFile", "os.Open", "os.OpenFile", "os.Create", "os.WriteFile") {
			if ops := joinOperands(p, f, c.Args[0]); len(ops) == 2 {
				if s, ok := core.ConstString(ops[1].F.Info(), ops[1].E); ok {
					names[fn+"="+s] = true
				}
			}
		}
	}
	r.Check(names["Load=gengo.sum"] && names["(*File).Save=gengo.sum"], rule, nil, "Load and Save address the same file", token.NoPos, "both use filepath.Join(dir, \"gengo.sum\")", "the reader and the writer of the sum file use different file names")
}

func c08R5(p *core.Program, r *core.Report) {
	const rule = "R5"
	r.Floor(rule, 3)
	bf := p.FuncByName("pkg/sumfile", "(*File).Bytes")
	ld := p.FuncByName("pkg/sumfile", "Load")
	if bf == nil || ld == nil {
		r.Anchor(rule, "pkg/sumfile.(*File).Bytes / Load")
		return
	}
	bf = flatten(p, bf) // loops in range form
	info := bf.Info()
	// writer: sequence of writes inside the loop over sorted keys
	var loop *ast.RangeStmt
	for _, s := range bf.Body.List {
		if rs, ok := s.(*ast.RangeStmt); ok {
			loop = rs
		}
	}
	okW := false
	why := "no loop over the sorted keys"
	if loop != nil {
		sorted := false
		seqX, _ := core.Resolve(info, bf.Body, loop.X) // the sorted keys, possibly read into a local first
		if c := core.AsCall(info, seqX, "slices.Sorted"); c != nil {
			if kc := core.AsCall(info, c.Args[0], "maps.Keys"); kc != nil {
				if fld := core.FieldOf(info, kc.Args[0]); fld != nil && fld.Name() == "Data" {
					sorted = true
				}
			}
		}
		kv := core.VarOf(info, loop.Value)
		var seq []string
		// the text written per entry, whatever the spelling (four WriteStrings, one Fprintf, ...):
		// operands are classified as K (the key) or V (Data[key]); constants are the separators
		full := tmpl{}
		okSeq := true
		for _, s := range loop.Body.List {
			es, ok := s.(*ast.ExprStmt)
			if !ok {
				if as, isAs := s.(*ast.AssignStmt); isAs && len(as.Rhs) == 1 {
					// `_, _ = fmt.Fprintf(b, ...)`
					if c, isCall := ast.Unparen(as.Rhs[0]).(*ast.CallExpr); isCall {
						if _, t, tok := writeTemplate(info, c); tok {
							full = full.concat(t)
							continue
						}
					}
				}
				okSeq = false
				continue
			}
			c, ok := es.X.(*ast.CallExpr)
			if !ok {
				okSeq = false
				continue
			}
			_, t, tok := writeTemplate(info, c)
			if !tok {
				okSeq = false
				continue
			}
			full = full.concat(t)
		}
		if okSeq {
			k := 0
			var sb strings.Builder
			for i := 0; i < len(full.Text); i++ {
				ch := full.Text[i]
				switch {
				case ch == 0:
					a := ast.Unparen(full.Ops[k])
					k++
					switch {
					case core.VarOf(info, a) == kv && kv != nil:
						sb.WriteString("K ")
					default:
						isV := false
						if ix, ok := a.(*ast.IndexExpr); ok && core.VarOf(info, ix.Index) == kv {
							if fld := core.FieldOf(info, ix.X); fld != nil && fld.Name() == "Data" {
								isV = true
							}
						}
						if isV {
							sb.WriteString("V ")
						} else {
							sb.WriteString("? ")
						}
					}
				case ch == ' ':
					sb.WriteString("SP ")
				case ch == '\n':
					sb.WriteString("NL ")
				default:
					sb.WriteString("? ")
				}
			}
			seq = strings.Fields(sb.String())
		} else {
			seq = []string{"?"}
		}
		got := strings.Join(seq, " ")
		switch {
		case !sorted:
			why = "entries are not written from slices.Sorted(maps.Keys(f.Data))"
		case got != "K SP V NL":
			why = "each entry is written as `" + got + "`, not `key SP value NL`"
		default:
			okW = true
		}
	}
	r.Check(okW, rule, bf, "writer: one `path hash` line per package, in sorted order", bf.Node().Pos(), "for k in Sorted(Keys(Data)): k, \" \", Data[k], \"\\n\"", why)
	// reader: Load itself or a helper of pkg/sumfile it reaches
	var rd *core.Func
	var fields []*ast.CallExpr
	// the reader with its unexported helpers seen in place (a per-line helper returning (path, hash, ok))
	if fl := flatten(p, ld); fl != ld {
		if cs := core.CallsTo(fl.Info(), fl.Body, true, "bytes.Fields", "strings.Fields"); len(cs) > 0 {
			fields, rd = cs, fl
		}
	}
	for f := range reachableFrom(p, ld) {
		if rd != nil {
			break
		}
		if core.RelPkg(f.Pkg.PkgPath) != "pkg/sumfile" {
			continue
		}
		if cs := core.CallsTo(f.Info(), f.Body, true, "bytes.Fields", "strings.Fields"); len(cs) > 0 {
			fields = append(fields, cs...)
			rd = f
		}
	}
	okR := false
	whyR := "the reader does not split lines and whitespace fields"
	if rd != nil && len(fields) == 1 {
		linfo := rd.Info()
		lines := len(core.CallsTo(linfo, rd.Root().Body, true, "bytes.Lines", "bytes.Split", "strings.Split", "strings.Lines", "bytes.SplitSeq", "strings.SplitSeq", "(*bufio.Scanner).Scan")) > 0
		if !lines {
			whyR = "the reader does not split the file into lines"
		}
		g := graph(rd)
		var parts *types.Var
		if as, ok := g.PointOf(fields[0]).Node().(*ast.AssignStmt); ok {
			parts = core.VarOf(linfo, as.Lhs[0])
		}
		// the map that is filled: the Data field, or a local map that becomes Data
		isData := func(e ast.Expr) bool {
			if fld := core.FieldOf(linfo, e); fld != nil && fld.Name() == "Data" {
				return true
			}
			v := core.VarOf(linfo, e)
			if v == nil || !isMapType(v.Type()) {
				return false
			}
			returned := false
			ast.Inspect(rd.Body, func(n ast.Node) bool {
				if ret, ok := n.(*ast.ReturnStmt); ok {
					for _, res := range ret.Results {
						if core.VarOf(linfo, res) == v {
							returned = true
						}
					}
				}
				return true
			})
			// ... or becomes Data right here: &File{..., Data: <map>}
			inLit := false
			ast.Inspect(rd.Body, func(n ast.Node) bool {
				if kv, ok := n.(*ast.KeyValueExpr); ok {
					if id, ok := kv.Key.(*ast.Ident); ok && id.Name == "Data" && core.VarOf(linfo, kv.Value) == v {
						inLit = true
					}
				}
				return true
			})
			if inLit {
				return true
			}
			if !returned || rd.Obj() == nil {
				return false
			}
			// the helper's result is stored as Data by its caller
			for _, cs := range allCalls(p) {
				if core.CalleeFunc(cs.In.Info(), cs.Call) != rd.Obj() {
					continue
				}
				cinfo := cs.In.Info()
				found := false
				ast.Inspect(cs.In.Root().Body, func(n ast.Node) bool {
					switch x := n.(type) {
					case *ast.KeyValueExpr:
						if id, ok := x.Key.(*ast.Ident); ok && id.Name == "Data" {
							if v, _ := core.Resolve(cinfo, cs.In.Root().Body, x.Value); ast.Unparen(v) == cs.Call {
								found = true
							}
						}
					case *ast.AssignStmt:
						for i, l := range x.Lhs {
							if fld := core.FieldOf(cinfo, l); fld != nil && fld.Name() == "Data" && i < len(x.Rhs) {
								if v, _ := core.Resolve(cinfo, cs.In.Root().Body, x.Rhs[i]); ast.Unparen(v) == cs.Call {
									found = true
								}
							}
						}
					}
					return true
				})
				if found {
					return true
				}
			}
			return false
		}
		ast.Inspect(rd.Body, func(n ast.Node) bool {
			as, ok := n.(*ast.AssignStmt)
			if !ok || len(as.Lhs) != 1 || !lines {
				return true
			}
			ix, ok := ast.Unparen(as.Lhs[0]).(*ast.IndexExpr)
			if !ok || !isData(ix.X) {
				return true
			}
			// key = string(parts[0]), value = string(parts[1])
			var idx func(e ast.Expr) int64
			idx = func(e ast.Expr) int64 {
				found := int64(-1)
				// a local that carries the field out of a per-line helper: all its non-constant definitions agree
				if v := core.VarOf(linfo, e); v != nil && v != parts && !v.IsField() {
					for _, d := range core.DefsOf(linfo, rd.Body, v) {
						if d.Rhs == nil || d.Index >= 0 {
							return -1
						}
						if _, isC := core.ConstString(linfo, d.Rhs); isC {
							continue
						}
						k := idx(d.Rhs)
						if k < 0 || (found >= 0 && k != found) {
							return -1
						}
						found = k
					}
					return found
				}
				ast.Inspect(e, func(m ast.Node) bool {
					if pix, ok := m.(*ast.IndexExpr); ok && core.VarOf(linfo, pix.X) == parts && parts != nil {
						if v, ok := core.ConstInt(linfo, pix.Index); ok {
							found = v
						}
					}
					return true
				})
				return found
			}
			if idx(ix.Index) == 0 && idx(as.Rhs[0]) == 1 {
				okR = true
			} else {
				whyR = "the reader does not take field 0 as the path and field 1 as the hash"
			}
			return true
		})
		if okR {
			sub := core.NewReport(r.Prog, "C08")
			if n := a5Check(sub, "R5", rd); n > 0 {
				for _, o := range sub.Obls {
					if o.Status == core.Violated {
						okR, whyR = false, "field access without a length guard: "+o.Construct
					}
				}
			}
		}
	}
	r.Check(okR, rule, ld, "reader: line -> whitespace fields -> (path, hash), length-guarded", ld.Node().Pos(), "Lines + Fields, Data[parts[0]] = parts[1] under len(parts) >= 2", whyR)
	r.Check(okW && okR, rule, nil, "reader and writer agree on the format", token.NoPos, "separator is whitespace other than newline, terminator is newline", "writer and reader of gengo.sum disagree on the line format: reading the file back does not yield the same mapping")
}

// c08R6: "Force makes it regenerate", "with All set": the skip decision reads Force and All from the context's
// arguments. They must be the caller's: every GeneratorArgs value built in the library (a copy made to fill defaults,
// to normalise paths ...) carries every field of the type - a field left out of such a literal silently takes its zero value.
func c08R6(p *core.Program, r *core.Report) {
	const rule = "R6"
	r.Floor(rule, 1)
	n := 0
	for _, f := range p.Funcs() {
		if f.Body == nil || f.Parent != nil {
			continue
		}
		info := f.Info()
		ast.Inspect(f.Body, func(m ast.Node) bool {
			cl, ok := m.(*ast.CompositeLit)
			if !ok || core.NamedTypeName(info.TypeOf(cl)) != core.G("pkg/gengo.GeneratorArgs") {
				return true
			}
			st, _ := info.TypeOf(cl).Underlying().(*types.Struct)
			if st == nil {
				return true
			}
			n++
			set := map[string]bool{}
			positional := false
			for _, el := range cl.Elts {
				if kv, isKV := el.(*ast.KeyValueExpr); isKV {
					if id, isID := kv.Key.(*ast.Ident); isID {
						set[id.Name] = true
					}
				} else {
					positional = true
				}
			}
			var missing []string
			for i := 0; i < st.NumFields() && !positional; i++ {
				if !set[st.Field(i).Name()] {
					missing = append(missing, st.Field(i).Name())
				}
			}
			// a literal that copies from another value of the type (mentions its fields) must be complete
			copies := false
			ast.Inspect(cl, func(mm ast.Node) bool {
				if sel, isSel := mm.(*ast.SelectorExpr); isSel {
					if fld := core.FieldOf(info, sel); fld != nil && ownerOf(fld) != nil && ownerOf(fld).Name() == "GeneratorArgs" {
						copies = true
					}
				}
				return true
			})
			r.Check(!copies || len(missing) == 0, rule, f, "a copy of the run's arguments carries every field", cl.Pos(), "all fields of GeneratorArgs are set in the literal",
				"the library builds a GeneratorArgs from another one without the field(s) "+strings.Join(missing, ", ")+": the context then consults the copy, where they are zero - Force no longer forces, All no longer selects")
			return true
		})
	}
	if n == 0 {
		r.OK(rule, nil, "the library builds no GeneratorArgs value of its own", token.NoPos, "the context consults the caller's arguments")
	}
}

// hash1WithoutSumFile: h is `func(files []string, open ...) (string, error)` that returns dirhash.Hash1(files', open)
// with files' = files, or files after slices.DeleteFunc(files, func(name) bool { return name == <sum file name> }).
// Answers whether the sum file is dropped, and why h is not of that form ("" when it is).
func hash1WithoutSumFile(p *core.Program, h *core.Func) (drops bool, why string) {
	if h.Decl == nil || h.Body == nil || h.Decl.Type.Params == nil {
		return false, "not a declared function"
	}
	h = flatten(p, h)
	info := h.Info()
	var params []*types.Var
	for _, fld := range h.Decl.Type.Params.List {
		for _, nm := range fld.Names {
			v, _ := info.ObjectOf(nm).(*types.Var)
			params = append(params, v)
		}
	}
	if len(params) != 2 || params[0] == nil || params[1] == nil {
		return false, "not a function of (files, open)"
	}
	files, open := params[0], params[1]
	sumName := sumFileName(p)
	if sumName == "" {
		return false, "the sum file's name constant was not found in pkg/sumfile"
	}
	// the explicit in-place filter: `kept := files[:0]; for _, name := range files { if name != <sum file> { kept = append(kept,
	// name) } }; clear(files[len(kept):]); return Hash1(kept, open)`
	if kept, ok := explicitSumFileFilter(info, h, files, sumName); ok {
		n, bad := 0, ""
		ast.Inspect(h.Body, func(m ast.Node) bool {
			if _, isLit := m.(*ast.FuncLit); isLit {
				return false
			}
			ret, isRet := m.(*ast.ReturnStmt)
			if !isRet {
				return true
			}
			n++
			c, isCall := (ast.Expr)(nil), false
			if len(ret.Results) == 1 {
				c, isCall = ast.Unparen(ret.Results[0]).(*ast.CallExpr)
			}
			if cc, _ := c.(*ast.CallExpr); !isCall || core.CalleeName(info, cc) != "golang.org/x/mod/sumdb/dirhash.Hash1" || len(cc.Args) != 2 || core.VarOf(info, cc.Args[0]) != kept || core.VarOf(info, cc.Args[1]) != open {
				bad = "`" + core.ExprStr(ret) + "`"
			}
			return true
		})
		if n == 0 || bad != "" {
			return true, "does not return dirhash.Hash1(<kept files>, open): " + bad
		}
		return true, ""
	}
	// every definition of files is the parameter itself filtered by the sum file's name
	for _, d := range core.DefsOf(info, h.Body, files) {
		c, isCall := ast.Unparen(d.Rhs).(*ast.CallExpr)
		if !isCall || core.CalleeName(info, c) != "slices.DeleteFunc" || len(c.Args) != 2 || core.VarOf(info, c.Args[0]) != files {
			return false, "the file list is redefined by `" + core.ExprStr(d.Stmt) + "`"
		}
		lit, isLit := ast.Unparen(c.Args[1]).(*ast.FuncLit)
		if !isLit || len(lit.Body.List) != 1 || lit.Type.Params == nil || len(lit.Type.Params.List) != 1 || len(lit.Type.Params.List[0].Names) != 1 {
			return false, "the filter is not a one-line predicate"
		}
		name, _ := info.ObjectOf(lit.Type.Params.List[0].Names[0]).(*types.Var)
		ret, isRet := lit.Body.List[0].(*ast.ReturnStmt)
		if !isRet || len(ret.Results) != 1 {
			return false, "the filter is not a one-line predicate"
		}
		b, isBin := ast.Unparen(ret.Results[0]).(*ast.BinaryExpr)
		if !isBin || b.Op != token.EQL {
			return false, "the filter drops more than one name: `" + core.ExprStr(ret.Results[0]) + "`"
		}
		x, y := b.X, b.Y
		if core.VarOf(info, y) == name {
			x, y = y, x
		}
		if core.VarOf(info, x) != name || name == nil || !constStrIs(info, y, sumName) {
			return false, "the filter does not compare the file name with the sum file's name: `" + core.ExprStr(ret.Results[0]) + "`"
		}
		drops = true
	}
	n := 0
	bad := ""
	ast.Inspect(h.Body, func(m ast.Node) bool {
		if _, isLit := m.(*ast.FuncLit); isLit {
			return false
		}
		ret, isRet := m.(*ast.ReturnStmt)
		if !isRet {
			return true
		}
		n++
		if len(ret.Results) != 1 {
			bad = "`" + core.ExprStr(ret) + "`"
			return true
		}
		c, isCall := ast.Unparen(ret.Results[0]).(*ast.CallExpr)
		if !isCall || core.CalleeName(info, c) != "golang.org/x/mod/sumdb/dirhash.Hash1" || len(c.Args) != 2 || core.VarOf(info, c.Args[0]) != files || core.VarOf(info, c.Args[1]) != open {
			bad = "`" + core.ExprStr(ret) + "`"
		}
		return true
	})
	if n == 0 || bad != "" {
		return drops, "does not return dirhash.Hash1(files, open): " + bad
	}
	return drops, ""
}

// explicitSumFileFilter recognises the hand-written filter of the file list: a local defined as `files[:0]` (or declared
// empty) and otherwise only by `kept = append(kept, name)` with name the value of a range over files, on the edge on which
// name is known to differ from the sum file's name; files itself is not redefined (clearing its tail is fine).
func explicitSumFileFilter(info *types.Info, h *core.Func, files *types.Var, sumName string) (*types.Var, bool) {
	if len(core.DefsOf(info, h.Body, files)) != 0 {
		return nil, false
	}
	g := graph(h)
	var kept *types.Var
	okAll := true
	nApp := 0
	ast.Inspect(h.Body, func(m ast.Node) bool {
		as, isAs := m.(*ast.AssignStmt)
		if !isAs || len(as.Lhs) != 1 || len(as.Rhs) != 1 {
			return true
		}
		v := core.VarOf(info, as.Lhs[0])
		if v == nil || v == files {
			return true
		}
		if _, isSlice := v.Type().Underlying().(*types.Slice); !isSlice {
			return true
		}
		rhs := ast.Unparen(as.Rhs[0])
		if se, isSE := rhs.(*ast.SliceExpr); isSE && core.VarOf(info, se.X) == files && se.Low == nil && se.High != nil {
			if z, isC := core.ConstInt(info, se.High); isC && z == 0 && (kept == nil || kept == v) {
				kept = v
				return true
			}
		}
		c, isCall := rhs.(*ast.CallExpr)
		if !isCall || core.CalleeName(info, c) != "builtin.append" || len(c.Args) != 2 || core.VarOf(info, c.Args[0]) != v {
			return true
		}
		if kept != nil && kept != v {
			return true
		}
		kept = v
		nApp++
		name := core.VarOf(info, c.Args[1])
		fromFiles := false
		if name != nil {
			for _, d := range core.DefsOf(info, h.Body, name) {
				if d.Kind == "range-value" && core.VarOf(info, d.Rhs) == files {
					fromFiles = true
				}
			}
		}
		differs := false
		for _, fct := range g.FactsAt(g.PointOf(as)) {
			b, isBin := ast.Unparen(fct.Cond).(*ast.BinaryExpr)
			if !isBin || fct.Tag != nil || (b.Op != token.NEQ && b.Op != token.EQL) {
				continue
			}
			x, y := b.X, b.Y
			if core.VarOf(info, y) == name {
				x, y = y, x
			}
			if core.VarOf(info, x) == name && constStrIs(info, y, sumName) && (b.Op == token.NEQ) == fct.Val {
				differs = true
			}
		}
		if !fromFiles || !differs {
			okAll = false
		}
		return true
	})
	if kept == nil || nApp != 1 || !okAll {
		return nil, false
	}
	// kept has no other definition
	for _, d := range core.DefsOf(info, h.Body, kept) {
		rhs := ast.Unparen(d.Rhs)
		if _, isSE := rhs.(*ast.SliceExpr); isSE {
			continue
		}
		if c, isCall := rhs.(*ast.CallExpr); isCall && core.CalleeName(info, c) == "builtin.append" {
			continue
		}
		if d.Rhs == nil && d.Kind == "var" {
			continue
		}
		return nil, false
	}
	return kept, true
}

// sumFileName: the constant file name sumfile.Save joins onto the module directory.
func sumFileName(p *core.Program) string {
	save := p.FuncByName("pkg/sumfile", "(*File).Save")
	if save == nil {
		return ""
	}
	// Save itself, or the helper of the package that builds the path for it
	name := ""
	for f := range reachableFrom(p, save) {
		if f.Body == nil || f.Pkg != save.Pkg {
			continue
		}
		info := f.Info()
		for _, c := range core.Calls(f.Body, true) {
			if n := core.CalleeName(info, c); (n == "path/filepath.Join" || n == "path.Join") && len(c.Args) == 2 {
				if tv, ok := info.Types[c.Args[1]]; ok && tv.Value != nil && tv.Value.Kind() == constant.String {
					if name != "" && name != constant.StringVal(tv.Value) {
						return ""
					}
					name = constant.StringVal(tv.Value)
				}
			}
		}
	}
	return name
}
