package rules

import (
	"go/ast"
	"go/token"
	"go/types"
	"strings"

	"gengoverif/checker/internal/cfgx"
	"gengoverif/checker/internal/core"
)

func init() {
	register(Property{
		ID:          "C06",
		Explanation: "Decided statically: R1 who-may-call + dominance - the only invocation of Generator.GenerateType sits in a function whose only caller calls it inside the *types.Named arm of a type switch over the table entry's Type(), under the true edge of IsGeneratorEnabled(g, tags) with tags = result 0 of Doc(x.Obj()) for the same x; symmetric for *types.Alias / AliasGenerator.GenerateAliasType (plus the comma-ok assertion); the dispatch loop ranges once over a key list built from the package's type table and sorted (no nested loop, no second call); R2 the type table only holds package-scope objects (= C13.R1: no local types, no type parameters); R3 effective tags = merge(globals, package tags, declaration tags) in this order, merge overwrites key by key in argument order (later wins), package tags come only from the file doc comments of the processed package; R4 the enablement rule: prefix = \"gengo:\" + Name(); an exact `k == prefix` match returns Join(values) != \"false\" by itself; otherwise HasPrefix(k, prefix + \":\") (the colon keeps names that are prefixes of one another apart) only sets enabled = true; no other return inside the loop (map-order independent); R5 deferred callbacks run in a loop that is dominated by the success edge of doGenerate and dominates the emptiness test, the registration for writing and (C02.R2) every write; each callback is called once; the list is only appended by Defer. R1 also decides completeness: the only conditions on the way to a dispatcher call are the entry's kind, IsGeneratorEnabled, the error of an earlier dispatch and the package nil guard; R7 the tag extractor's classification and key/value split (C12.R4). R8 the doc comment of a declaration is found and attributed to it (C12.R1-R3, including that builder and lookup of the comment index map positions the same way). R5 also: every path through Defer appends its argument to the callback list. NOT decided: the full truth table of the enablement function over all tag sets (string predicates; would need symbolic evaluation). Round 8: R9 the generators a package is processed with are the per-package function's own parameter, never assigned, and the generator loop ranges over it.",
		Assumptions: commonAssumptions,
		Run:         runC06,
	})
}

func runC06(p *core.Program, r *core.Report) {
	c06R1(p, r)
	c06R9(p, r)
	// R2 = C13.R1
	sub := core.NewReport(r.Prog, "C13")
	c13R1(p, sub)
	r.Floor("R2", 3)
	for _, o := range sub.Obls {
		if o.Rule != "C13.R1" {
			continue
		}
		if o.Status == core.Discharged {
			r.OK("R2", nil, o.Func+": "+o.Construct, token.NoPos, o.How)
		} else {
			r.Bad("R2", nil, o.Func+": "+o.Construct, token.NoPos, "GenerateType would be invoked for function-local types / type parameters: "+o.How)
		}
	}
	c06R3(p, r)
	c06R4(p, r)
	c06R5(p, r)
	// R7: effective tags are what the tag extractor makes of the comment lines: its key/value split is part of
	// "an effective gengo:<name> tag decides"
	chainRules(p, r, "R7", "C12", []string{"C12.R4"}, "tag lines are classified once and split at the first '=' or space")
	// R8: the declaration's own tags are the tags of the doc comment Package.Doc attributes to it
	chainRules(p, r, "R8", "C12", []string{"C12.R1", "C12.R2", "C12.R3"}, "the doc comment of a declaration is found and attributed to it")
}

func c06R1(p *core.Program, r *core.Report) {
	const rule = "R1"
	r.Floor(rule, 6)
	genType := "(" + core.G("pkg/gengo.Generator") + ").GenerateType"
	genAlias := "(" + core.G("pkg/gengo.AliasGenerator") + ").GenerateAliasType"
	enabled := core.G("pkg/gengo.IsGeneratorEnabled")
	docName := core.GM("pkg/gengo", "*"+ctxTypeName(p), "Doc")
	for _, spec := range []struct {
		iface, arm, what string
	}{{genType, "go/types.Named", "GenerateType"}, {genAlias, "go/types.Alias", "GenerateAliasType"}} {
		sites := []CallSite{}
		for _, cs := range callersOf(p, spec.iface) {
			if strings.HasPrefix(core.RelPkg(cs.In.Pkg.PkgPath), "pkg/") {
				sites = append(sites, cs)
			}
		}
		if len(sites) != 1 {
			r.Bad(rule, nil, "exactly one invocation site of "+spec.what+" in the framework", token.NoPos, "found "+itoa(int64(len(sites)))+" sites: a second site can invoke generators outside the enablement/dispatch discipline")
			if len(sites) == 0 {
				continue
			}
		}
		inv := sites[0]
		disp := inv.In.Root()
		// the invoked value is the x passed in
		if len(inv.Call.Args) == 2 {
			v := core.VarOf(disp.Info(), inv.Call.Args[1])
			r.Check(v != nil && isParamOf(disp, v), rule, disp, spec.what+" receives the dispatched type", inv.Call.Pos(), "second argument is the dispatcher's type parameter", spec.what+" is invoked with another type than the one dispatched")
		}
		// callers of the dispatcher
		var callers []CallSite
		for _, cs := range allCalls(p) {
			if core.CalleeFunc(cs.In.Info(), cs.Call) == disp.Obj() {
				callers = append(callers, cs)
			}
		}
		if len(callers) != 1 {
			r.Bad(rule, disp, "the dispatcher of "+spec.what+" has exactly one caller", disp.Node().Pos(), "found "+itoa(int64(len(callers)))+" callers")
			if len(callers) == 0 {
				continue
			}
		}
		cs := callers[0]
		f := cs.In
		if f.Parent == nil {
			f = unit(p, f) // a predicate or another unexported helper extracted from the dispatch loop is seen in place
		}
		cs.Call = callInView(f, cs.Call) // the view may show the call in another spelling (a method-like function as a method)
		info := f.Info()
		g := graph(f)
		at := g.PointOf(cs.Call)
		// the call happens where the dispatched value is known to be of the right kind: in the single-type
		// clause of a type switch, or under a successful comma-ok assertion (typeFactsAt)
		var tf *typeFact
		for _, x := range typeFactsAt(f, cs.Call) {
			if core.NamedTypeName(x.Type) == spec.arm {
				xx := x
				tf = &xx
			}
		}
		path := core.PathTo(f.Body, cs.Call)
		r.Check(tf != nil, rule, f, spec.what+" is reached only in the "+spec.arm[len("go/types."):]+" arm of the type switch", cs.Call.Pos(), "call nested in `case *types."+spec.arm[len("go/types."):]+":` (single type) or under `x, ok := t.(*types."+spec.arm[len("go/types."):]+"); ok`",
			spec.what+" can be invoked for a table entry that is not a *types."+spec.arm[len("go/types."):]+" (e.g. aliases dispatched to GenerateType)")
		if tf == nil {
			continue
		}
		var x types.Object
		if tf.Binding != nil {
			x = tf.Binding
		}
		var cc ast.Node = tf.Scope
		if _, isClause := cc.(*ast.CaseClause); !isClause {
			cc = f.Body // definitions are looked up in the whole function for the comma-ok form
		}
		// the switch operand is the Type() of the table entry of this iteration
		opOK := false
		var loop *ast.RangeStmt
		for k := len(path) - 1; k >= 0; k-- {
			if rs, ok := path[k].(*ast.RangeStmt); ok {
				if loop == nil {
					loop = rs
				} else {
					loop = nil // nested loops
					break
				}
			}
			if _, ok := path[k].(*ast.ForStmt); ok {
				loop = nil
				break
			}
		}
		var table *types.Var
		if loop != nil {
			e, _ := core.Resolve(info, f.Body, tf.Operand)
			if c, ok := ast.Unparen(e).(*ast.CallExpr); ok && strings.HasSuffix(core.CalleeName(info, c), ").Type") {
				if ix, ok := ast.Unparen(recvOf(c)).(*ast.IndexExpr); ok && core.VarOf(info, ix.Index) == core.VarOf(info, loop.Value) && loop.Value != nil {
					table = core.VarOf(info, ix.X)
					opOK = table != nil
				}
			}
		}
		r.Check(opOK, rule, f, "the dispatched type is the table entry of the current iteration", tf.Operand.Pos(), "switch x := table[name].Type().(type) with name the range value", "the type switch does not operate on the Type() of the current table entry")
		// the table is <pkg>.Types() and the loop ranges over its sorted keys, once
		if table != nil {
			d, ok := core.SingleDef(info, f.Body, table)
			fromTypes := ok && strings.HasSuffix(canonBase(p, f, d.Rhs, 0), ".pkg.Types()")
			keys := core.VarOf(info, loop.X)
			keysOK := false
			// I2 form: the loop ranges over slices.Sorted(maps.Keys(table)) (directly or through a local)
			if m := sortedKeysOperand(info, f.Body, loop.X); m != nil && core.VarOf(info, m) == table {
				keysOK = true
			}
			if keys != nil && !keysOK {
				for _, s := range f.Body.List {
					rs, ok := s.(*ast.RangeStmt)
					if !ok || core.VarOf(info, rs.X) != table {
						continue
					}
					sh := rangeBodyShape(info, rs)
					if sh.KeyedOnly && len(sh.Collected) == 1 && sh.Collected[0] == keys && len(rs.Body.List) == 1 {
						if as, isAs := rs.Body.List[0].(*ast.AssignStmt); isAs {
							if c, isC := as.Rhs[0].(*ast.CallExpr); isC && len(c.Args) == 2 && core.VarOf(info, c.Args[1]) == core.VarOf(info, rs.Key) {
								if good, _ := sortedBeforeUse(f, rs, keys); good {
									keysOK = true
								}
							}
						}
					}
				}
			}
			r.Check(fromTypes && keysOK, rule, f, "every table entry is dispatched exactly once, in sorted order", loop.Pos(), "keys of c.pkg.Types() collected unconditionally, sorted, ranged once", "the dispatch loop does not visit each key of the package's type table exactly once in sorted order")
		}
		// enabled(g, tags) with tags from Doc(x.Obj()); the test may be spelled in place or as a predicate of the package
		// whose body is exactly that (`tags, _ := c.Doc(obj); return IsGeneratorEnabled(g, tags)`), with its parameters
		// standing for the arguments
		var enabledTest func(fi *core.Func, scope ast.Node, e ast.Expr, depth int) (gen, obj ast.Expr, ok bool)
		enabledTest = func(fi *core.Func, scope ast.Node, e ast.Expr, depth int) (ast.Expr, ast.Expr, bool) {
			ii := fi.Info()
			e, _ = core.Resolve(ii, fi.Body, e)
			c, isCall := ast.Unparen(e).(*ast.CallExpr)
			if !isCall || depth > 2 {
				return nil, nil, false
			}
			if ec := core.AsCall(ii, c, enabled); ec != nil && len(ec.Args) == 2 {
				tv := core.VarOf(ii, ec.Args[1])
				if tv == nil {
					return nil, nil, false
				}
				d, ok := core.SingleDef(ii, scope, tv)
				if !ok {
					d, ok = core.SingleDef(ii, fi.Body, tv)
				}
				if !ok || d.Index != 0 {
					return nil, nil, false
				}
				dc := core.AsCall(ii, d.Rhs, docName, "("+core.G("pkg/gengo.Context")+").Doc")
				if dc == nil || len(dc.Args) != 1 {
					return nil, nil, false
				}
				return ec.Args[0], dc.Args[0], true
			}
			h := p.FuncOfObj(core.CalleeFunc(ii, c))
			if h == nil || h.Body == nil || h.Decl == nil || h.Pkg != fi.Pkg || h.Decl.Name.IsExported() {
				return nil, nil, false
			}
			rets := ownReturnsOf(h)
			if len(rets) != 1 || len(rets[0].Results) != 1 {
				return nil, nil, false
			}
			hg, ho, ok := enabledTest(h, h.Body, rets[0].Results[0], depth+1)
			if !ok {
				return nil, nil, false
			}
			// parameters -> arguments
			arg := func(pe ast.Expr) ast.Expr {
				v := core.VarOf(h.Info(), pe)
				if v == nil || !isParamOf(h, v) {
					return nil
				}
				if k := paramIndex(h, v); k >= 0 && k < len(c.Args) {
					return c.Args[k]
				}
				return nil
			}
			ag, ao := arg(hg), arg(ho)
			if ag == nil || ao == nil {
				return nil, nil, false
			}
			return ag, ao, true
		}
		enOK := false
		for _, fct := range g.FactsAt(at) {
			if !fct.Val || fct.Tag != nil {
				continue
			}
			genE, objE, ok := enabledTest(f, cc, fct.Cond, 0)
			if !ok {
				continue
			}
			docArg, _ := core.Resolve(info, f.Body, objE)
			if oc, ok := ast.Unparen(docArg).(*ast.CallExpr); ok && strings.HasSuffix(core.CalleeName(info, oc), ").Obj") && info.ObjectOf(identOf(recvOf(oc))) == x && x != nil {
				// same generator as the one invoked
				if len(cs.Call.Args) >= 2 {
					gv := core.CanonVarOf(info, f.Body, genE)
					passed, _ := core.Resolve(info, cc, cs.Call.Args[1])
					if pv := core.VarOf(info, passed); pv == gv {
						enOK = true
					} else if ta2, ok := ast.Unparen(passed).(*ast.TypeAssertExpr); ok && core.VarOf(info, ta2.X) == gv {
						enOK = true
					} else if pv != nil {
						// the binding of a type switch / comma-ok assertion on the generator
						for _, x := range typeFactsAt(f, cs.Call) {
							if x.Binding == pv && core.VarOf(info, x.Operand) == gv {
								enOK = true
							}
						}
					}
				}
			}
		}
		r.Check(enOK, rule, f, spec.what+" is invoked only when the generator is enabled by the type's own effective tags", cs.Call.Pos(), "dominated by IsGeneratorEnabled(g, tags), tags, _ := c.Doc(x.Obj())",
			spec.what+" is not guarded by IsGeneratorEnabled(g, tags-of-this-type): disabled types are generated (or another type's tags decide)")
		// ... and for every enabled type: nothing else decides whether the dispatcher is reached. The conditions on the
		// way are the kind of the entry, IsGeneratorEnabled, the error of an earlier dispatch and the nil guard of the package.
		for _, fct := range g.FactsAt(at) {
			if fct.Tag != nil {
				continue // arms of the type switch
			}
			c := ast.Unparen(fct.Cond)
			if _, _, isEn := enabledTest(f, cc, c, 0); isEn {
				continue
			}
			if v := core.VarOf(info, c); v != nil && isBasicKind(v.Type(), types.Bool) {
				if d, ok := core.SingleDef(info, f.Body, v); ok && d.Index == 1 {
					if _, isTA := ast.Unparen(d.Rhs).(*ast.TypeAssertExpr); isTA {
						continue
					}
				}
			}
			if b, ok := c.(*ast.BinaryExpr); ok && (b.Op == token.EQL || b.Op == token.NEQ) {
				if id, isNil := ast.Unparen(b.Y).(*ast.Ident); isNil && id.Name == "nil" {
					if v := core.VarOf(info, b.X); v != nil && isErrorType(v.Type()) {
						continue
					}
					if fld := core.FieldOf(info, b.X); fld != nil && core.NamedTypeName(fld.Type()) == core.G("pkg/types.Package") {
						continue
					}
				}
			}
			// an emptiness test of the table or of its keys: nothing is left out when there is nothing
			if x, _, k, isCmp := cmpConst(info, c); isCmp && k == 0 {
				if lc, isCall := ast.Unparen(x).(*ast.CallExpr); isCall && core.CalleeName(info, lc) == "builtin.len" && len(lc.Args) == 1 {
					if v := core.VarOf(info, lc.Args[0]); v != nil && loop != nil && (v == table || v == core.VarOf(info, loop.X)) {
						continue
					}
				}
			}
			r.Bad(rule, f, spec.what+" is invoked for every enabled type: no further condition on the way to the dispatcher", fct.Cond.Pos(),
				"the dispatch of "+spec.what+" also depends on `"+core.ExprStr(fct.Cond)+"` ("+boolStr(fct.Val)+"): a type whose effective tags enable the generator is not generated when this condition fails (e.g. a package-wide shortcut that looks at the tags differently from IsGeneratorEnabled)")
		}
		if spec.arm == "go/types.Alias" {
			// the generator is known to implement AliasGenerator (comma-ok or single-type clause)
			asrt := false
			for _, x := range typeFactsAt(f, cs.Call) {
				if core.NamedTypeName(x.Type) == core.G("pkg/gengo.AliasGenerator") {
					asrt = true
				}
			}
			r.Check(asrt, rule, f, "aliases go only to generators that implement AliasGenerator", cs.Call.Pos(), "comma-ok assertion g.(AliasGenerator)", "the alias arm does not test g.(AliasGenerator) with comma-ok")
		}
	}
}

func c06R3(p *core.Program, r *core.Report) {
	const rule = "R3"
	r.Floor(rule, 4)
	d := ctxMethod(p, "Doc")
	m := p.FuncByName("pkg/gengo", "merge")
	if d == nil || m == nil {
		r.Anchor(rule, "pkg/gengo.(*gengoCtx).Doc / merge")
		return
	}
	m = flatten(p, m) // loops in range form
	info := d.Info()
	ok := false
	why := "Doc does not return merge(globals, package tags, declaration tags)"
	ast.Inspect(d.Body, func(n ast.Node) bool {
		ret, isRet := n.(*ast.ReturnStmt)
		if !isRet || len(ret.Results) != 2 {
			return true
		}
		res0, _ := core.Resolve(info, d.Body, ret.Results[0]) // `merged := merge(...); return merged, doc`
		mc := core.AsCall(info, res0, core.G("pkg/gengo.merge"))
		if mc == nil || len(mc.Args) != 3 {
			return true
		}
		f0, f1 := core.FieldOf(info, mc.Args[0]), core.FieldOf(info, mc.Args[1])
		declOK := false
		if v := core.VarOf(info, mc.Args[2]); v != nil {
			if df, isDef := core.SingleDef(info, d.Body, v); isDef && df.Index == 0 {
				if c, isCall := ast.Unparen(df.Rhs).(*ast.CallExpr); isCall && strings.HasSuffix(core.CalleeName(info, c), "Package).Doc") {
					declOK = true
				}
			}
		}
		switch {
		case f0 == nil || f0.Name() != "Globals":
			why = "the first (weakest) operand of merge is not GeneratorArgs.Globals"
		case !isRole(p, f1, "ctx.pkgTags"):
			why = "the second operand of merge is not the package tags"
		case !declOK:
			why = "the third (strongest) operand of merge is not the declaration's own doc tags"
		default:
			ok = true
		}
		return true
	})
	r.Check(ok, rule, d, "effective tags = declaration over package over global", d.Node().Pos(), "merge(args.Globals, c.pkgTags, tags-of-declaration)", why)
	// merge: index order, keyed overwrite
	minfo := m.Info()
	mok := false
	var outer *ast.RangeStmt
	for _, s := range m.Body.List {
		if rs, isR := s.(*ast.RangeStmt); isR {
			outer = rs
		}
	}
	if outer != nil {
		if v := core.VarOf(minfo, outer.X); v != nil && isParamOf(m, v) && outer.Value != nil {
			if len(outer.Body.List) == 1 {
				if inner, isR := outer.Body.List[0].(*ast.RangeStmt); isR && core.VarOf(minfo, inner.X) == core.VarOf(minfo, outer.Value) && len(inner.Body.List) == 1 {
					if as, isAs := inner.Body.List[0].(*ast.AssignStmt); isAs && as.Tok == token.ASSIGN && len(as.Lhs) == 1 {
						if ix, isIx := ast.Unparen(as.Lhs[0]).(*ast.IndexExpr); isIx && core.VarOf(minfo, ix.Index) == core.VarOf(minfo, inner.Key) {
							rhs := ast.Unparen(as.Rhs[0])
							if core.VarOf(minfo, rhs) == core.VarOf(minfo, inner.Value) && inner.Value != nil {
								mok = true
							}
							if rix, isR := rhs.(*ast.IndexExpr); isR && core.VarOf(minfo, rix.X) == core.VarOf(minfo, inner.X) && core.VarOf(minfo, rix.Index) == core.VarOf(minfo, inner.Key) {
								mok = true
							}
						}
					}
				}
			}
		}
	}
	if !mok && outer != nil && len(outer.Body.List) == 1 {
		// maps.Copy(merged, tags): the same keyed overwrite
		if es, isES := outer.Body.List[0].(*ast.ExprStmt); isES {
			if c := core.AsCall(minfo, es.X, "maps.Copy"); c != nil && len(c.Args) == 2 && core.VarOf(minfo, c.Args[1]) == core.VarOf(minfo, outer.Value) && outer.Value != nil {
				if v := core.VarOf(minfo, outer.X); v != nil && isParamOf(m, v) {
					mok = true
				}
			}
		}
	}
	r.Check(mok, rule, m, "merge overwrites key by key in argument order (later wins)", m.Node().Pos(), "for tags in list { for k, v in tags { merged[k] = v } }", "merge is not a plain keyed overwrite in argument order: precedence of declaration over package over global tags is lost (e.g. first-wins, or values appended)")
	// package tags: only from file doc comments of the processed package
	pl := findPipeline(p, r, rule)
	if pl == nil {
		return
	}
	pe := pl.pkgExec
	pinfo := pe.Info()
	stores, good := 0, 0
	for _, f := range pkgUnits(p, "pkg/gengo") {
		finfo := f.Info()
		ast.Inspect(f.Body, func(n ast.Node) bool {
			if lit, isLit := n.(*ast.FuncLit); isLit && lit != f.Lit {
				return false
			}
			as, isAs := n.(*ast.AssignStmt)
			if !isAs {
				return true
			}
			for i, l := range as.Lhs {
				ix, isIx := ast.Unparen(l).(*ast.IndexExpr)
				if !isIx {
					continue
				}
				// the map is the pkgTags field, directly or through an alias (a helper's parameter)
				me, _ := core.Resolve(finfo, f.Root().Body, ix.X)
				fld := core.FieldOf(finfo, me)
				if !isRole(p, fld, "ctx.pkgTags") {
					continue
				}
				stores++
				if f.Root() != pe {
					continue
				}
				// value: tags[k] with tags from ExtractCommentTags(strings.Split(f.Doc.Text(), "\n"))
				rix, isR := ast.Unparen(as.Rhs[i]).(*ast.IndexExpr)
				if !isR {
					continue
				}
				tv := core.VarOf(pinfo, rix.X)
				if tv == nil {
					continue
				}
				if df, isDef := core.SingleDef(pinfo, pe.Body, tv); isDef && df.Index == 0 {
					if ec := core.AsCall(pinfo, df.Rhs, core.G("pkg/types.ExtractCommentTags")); ec != nil {
						if strings.Contains(core.ExprStr(ec.Args[0]), ".Doc.Text()") && core.SameRef(pinfo, ix.Index, rix.Index) {
							good++
						}
					}
				}
			}
			return true
		})
	}
	r.Check(stores == 1 && good == 1, rule, pe, "package tags come from the file doc comments of the processed package only", pe.Node().Pos(), "pkgTags[k] = ExtractCommentTags(f.Doc.Text())[k] for f in p.Files()", "package-level tags have another or an additional source than the doc comments of the processed package's files")
	// pkgTags of the per-generator context is the per-package map
	shared := false
	ast.Inspect(pe.Body, func(n ast.Node) bool {
		if cl, isLit := n.(*ast.CompositeLit); isLit && core.NamedTypeName(pinfo.TypeOf(cl)) == ctxG(p) {
			// field by field, or as part of an embedded group that is copied from the per-package context as a whole
			if inits, copies, okI := structInitsEx(pinfo, pe.Body, cl); okI {
				for fld, v := range inits {
					if isRole(p, fld, "ctx.pkgTags") && isRole(p, core.FieldOf(pinfo, v), "ctx.pkgTags") {
						shared = true
					}
				}
				for fld, from := range copies {
					if isRole(p, fld, "ctx.pkgTags") {
						if t := pinfo.TypeOf(from); t != nil {
							root := ast.Unparen(from)
							for {
								sel, isSel := root.(*ast.SelectorExpr)
								if !isSel {
									break
								}
								root = ast.Unparen(sel.X)
							}
							if rv := core.VarOf(pinfo, root); rv != nil && core.NamedTypeName(rv.Type()) == ctxG(p) {
								shared = true
							}
						}
					}
				}
			}
		}
		return true
	})
	r.Check(shared, rule, pe, "generators see the package's tags", pe.Node().Pos(), "pkgTags: pkgCtx.pkgTags", "the per-generator context is not given the package's tag map")
}

func c06R4(p *core.Program, r *core.Report) {
	const rule = "R4"
	r.Floor(rule, 5)
	f := p.FuncByName("pkg/gengo", "IsGeneratorEnabled")
	if f == nil {
		r.Anchor(rule, "pkg/gengo.IsGeneratorEnabled")
		return
	}
	f = flatten(p, f) // helpers in place, a single-exit result variable shown as the returns it stands for
	info := f.Info()
	g := graph(f)
	// concatenation leaves of an expression (through single-definition locals)
	var leaves func(e ast.Expr) []ast.Expr
	leaves = func(e ast.Expr) []ast.Expr {
		e, _ = core.Resolve(info, f.Body, e)
		if b, ok := ast.Unparen(e).(*ast.BinaryExpr); ok && b.Op == token.ADD {
			return append(leaves(b.X), leaves(b.Y)...)
		}
		return []ast.Expr{ast.Unparen(e)}
	}
	isPrefixLeaves := func(ls []ast.Expr, tail string) bool {
		if len(ls) != 2+len(tail) {
			return false
		}
		if !constStrIs(info, ls[0], "gengo:") {
			return false
		}
		c, ok := ls[1].(*ast.CallExpr)
		if !ok || !strings.HasSuffix(core.CalleeName(info, c), "Generator).Name") {
			return false
		}
		if tail != "" && !constStrIs(info, ls[2], tail) {
			return false
		}
		return true
	}
	// the tags parameter and the loops over it
	var tagsP *types.Var
	for _, fld := range f.Decl.Type.Params.List {
		for _, n := range fld.Names {
			if v, _ := info.ObjectOf(n).(*types.Var); v != nil && isMapType(v.Type()) {
				tagsP = v
			}
		}
	}
	if tagsP == nil {
		r.Anchor(rule, "tags parameter of IsGeneratorEnabled")
		return
	}
	var loops []*ast.RangeStmt
	ast.Inspect(f.Body, func(n ast.Node) bool {
		if rs, ok := n.(*ast.RangeStmt); ok && core.VarOf(info, rs.X) == tagsP {
			loops = append(loops, rs)
		}
		return true
	})
	loopOf := func(n ast.Node) *ast.RangeStmt {
		for _, l := range loops {
			if l.Body.Pos() <= n.Pos() && n.End() <= l.Body.End() {
				return l
			}
		}
		return nil
	}
	// facts
	keyEqPrefix := func(at cfgxPoint, l *ast.RangeStmt) bool {
		if l == nil {
			return false
		}
		k := core.VarOf(info, l.Key)
		for _, fct := range g.FactsAt(at) {
			v, ok := eqFact(fct, func(e ast.Expr) bool { return k != nil && core.VarOf(info, e) == k }, func(e ast.Expr) bool { return isPrefixLeaves(leaves(e), "") })
			if ok && v {
				return true
			}
		}
		return false
	}
	subTagFact := func(at cfgxPoint, l *ast.RangeStmt) bool {
		if l == nil {
			return false
		}
		k := core.VarOf(info, l.Key)
		for _, fct := range g.FactsAt(at) {
			hc := core.AsCall(info, fct.Cond, "strings.HasPrefix")
			if hc != nil && fct.Val && fct.Tag == nil && k != nil && core.VarOf(info, hc.Args[0]) == k && isPrefixLeaves(leaves(hc.Args[1]), ":") {
				return true
			}
		}
		return false
	}
	// the values of the exact tag: the range value under k == prefix, or the result of tags[prefix] under ok
	exactValues := func(e ast.Expr, at cfgxPoint) bool {
		v := core.VarOf(info, e)
		if v == nil {
			return false
		}
		if l := loopOf(at.Node()); l != nil && core.VarOf(info, l.Value) == v {
			return keyEqPrefix(at, l)
		}
		d, ok := core.SingleDef(info, f.Body, v)
		if !ok || d.Index != 0 {
			return false
		}
		ix, ok := ast.Unparen(d.Rhs).(*ast.IndexExpr)
		if !ok || core.VarOf(info, ix.X) != tagsP || !isPrefixLeaves(leaves(ix.Index), "") {
			return false
		}
		as, _ := d.Stmt.(*ast.AssignStmt)
		if as == nil || len(as.Lhs) != 2 {
			return false
		}
		okV := core.VarOf(info, as.Lhs[1])
		for _, fct := range g.FactsAt(at) {
			if okV != nil && core.VarOf(info, fct.Cond) == okV && fct.Val {
				return true
			}
		}
		return false
	}
	isVerdict := func(e ast.Expr, at cfgxPoint) bool {
		b, ok := ast.Unparen(e).(*ast.BinaryExpr)
		if !ok || b.Op != token.NEQ || !constStrIs(info, b.Y, "false") {
			return false
		}
		jc := core.AsCall(info, b.X, "strings.Join")
		return jc != nil && len(jc.Args) == 2 && constStrIs(info, jc.Args[1], "") && exactValues(jc.Args[0], at)
	}
	constBool := func(e ast.Expr) (bool, bool) {
		tv := info.Types[e]
		if tv.Value == nil {
			return false, false
		}
		return tv.Value.String() == "true", tv.Value.String() == "true" || tv.Value.String() == "false"
	}
	// classify every return
	type retInfo struct {
		ret  *ast.ReturnStmt
		at   cfgxPoint
		kind string // verdict, true-subtag, false, flag, other
		loop *ast.RangeStmt
	}
	var rets []retInfo
	var flag *types.Var
	for _, rp := range g.Points(func(n ast.Node) bool { _, ok := n.(*ast.ReturnStmt); return ok }) {
		ret := rp.Node().(*ast.ReturnStmt)
		ri := retInfo{ret: ret, at: rp, kind: "other", loop: loopOf(ret)}
		if len(ret.Results) == 1 {
			e := ret.Results[0]
			if v := core.VarOf(info, e); v != nil {
				// a variable: either assigned the verdict just before, or the accumulated flag
				defs, _ := reachingDefs(g, v, rp)
				if len(defs) == 1 {
					if as, ok := defs[0].Node().(*ast.AssignStmt); ok && len(as.Rhs) == 1 && isVerdict(as.Rhs[0], defs[0]) {
						ri.kind = "verdict"
					}
				}
				if ri.kind == "other" {
					ri.kind = "flag"
					flag = v
				}
			} else if isVerdict(e, rp) {
				ri.kind = "verdict"
			} else if c, isC := constBool(e); isC {
				if c && subTagFact(rp, ri.loop) {
					ri.kind = "true-subtag"
				} else if !c {
					ri.kind = "false"
				}
			}
		}
		rets = append(rets, ri)
	}
	// O1 the exact tag decides by itself
	nVerdict := 0
	for _, ri := range rets {
		if ri.kind == "verdict" {
			nVerdict++
		}
	}
	r.Check(nVerdict >= 1, rule, f, "the generator's own tag is matched exactly and decides by itself: enabled iff its value is not \"false\"", f.Node().Pos(),
		"a return of Join(values, \"\") != \"false\" for the values of the key \"gengo:\"+g.Name() (k == prefix in the loop, or tags[prefix] found)",
		"no return yields `Join(values, \"\") != \"false\"` for exactly the tag \"gengo:\" + g.Name(): the explicit tag does not decide by itself (or a tag of a generator whose name merely starts with this name could decide)")
	// O2 map-order independence of the returns inside a loop over the tags
	orderOK, whyOrder := true, ""
	for _, l := range loops {
		kinds := map[string]bool{}
		for _, ri := range rets {
			if ri.loop == l {
				kinds[ri.kind] = true
			}
		}
		switch {
		case kinds["other"] || kinds["false"] || kinds["flag"]:
			orderOK, whyOrder = false, "a loop over the tags returns something that is neither the exact tag's verdict nor the constant true for a sub-tag"
		case kinds["verdict"] && kinds["true-subtag"]:
			orderOK, whyOrder = false, "one loop over the tags returns both for the exact tag and for a sub-tag: whichever the map yields first decides (an explicit `=false` can lose against a sub-tag)"
		case kinds["true-subtag"]:
			// "exists" loop: fine only if the exact tag was decided before the loop
			decided := false
			for _, ri := range rets {
				if ri.kind == "verdict" && ri.loop == nil && ri.ret.End() <= l.Pos() {
					decided = true
				}
			}
			if !decided {
				orderOK, whyOrder = false, "the loop returns true for a sub-tag although the exact tag has not been looked up before it"
			}
		}
	}
	r.Check(orderOK, rule, f, "map-iteration order cannot decide the verdict", f.Node().Pos(), "inside a loop over the tags only the unique exact key returns, or the exact tag was looked up first and the loop only returns the constant true", whyOrder)
	// O3 a sub-tag enables: under HasPrefix(k, prefix + ":") only `enabled = true` / `return true`
	subOK, nSub := true, 0
	for _, br := range g.Branches() {
		hc := core.AsCall(info, br.Cond, "strings.HasPrefix")
		if hc == nil || br.Tag != nil {
			continue
		}
		l := loopOf(br.Cond)
		if l == nil || core.VarOf(info, hc.Args[0]) != core.VarOf(info, l.Key) {
			continue
		}
		nSub++
		if !isPrefixLeaves(leaves(hc.Args[1]), ":") {
			subOK = false
			continue
		}
		body := br.B.Succs[0]
		for _, n := range body.Nodes {
			switch x := n.(type) {
			case *ast.AssignStmt:
				if len(x.Rhs) != 1 {
					subOK = false
				} else if c, isC := constBool(x.Rhs[0]); !isC || !c {
					subOK = false
				}
			case *ast.ReturnStmt:
				if len(x.Results) != 1 {
					subOK = false
				} else if c, isC := constBool(x.Results[0]); !isC || !c {
					subOK = false
				}
			default:
				subOK = false
			}
		}
		if len(body.Nodes) == 0 {
			subOK = false
		}
	}
	r.Check(subOK && nSub >= 1, rule, f, "a sub-tag enables: HasPrefix(k, \"gengo:\" + Name() + \":\") leads to true", f.Node().Pos(), "prefix ends with the colon; the arm only yields the constant true",
		"the sub-tag test is not HasPrefix(k, \"gengo:\"+Name()+\":\") yielding true: without the trailing colon `gengo:deep...` of another generator enables this one")
	// O4 default false
	defOK := false
	if ret, ok := lastStmt(f.Body.List).(*ast.ReturnStmt); ok && len(ret.Results) == 1 {
		if c, isC := constBool(ret.Results[0]); isC && !c {
			defOK = true
		} else if v := core.VarOf(info, ret.Results[0]); v != nil && v == flag {
			for _, d := range core.DefsOf(info, f.Body, v) {
				if d.Kind == "define" || d.Kind == "var" {
					if tv := info.Types[d.Rhs]; tv.Value != nil && tv.Value.String() == "false" {
						defOK = true
					}
				}
			}
		}
	}
	r.Check(defOK, rule, f, "without any tag the generator is not enabled", f.Node().Pos(), "the final return is false (or a flag initialised with false)", "the default verdict is not false")
	// O5 the verdict is computed from the tags passed in
	r.Check(len(loops) >= 1, rule, f, "the verdict is computed from the tags passed in", f.Node().Pos(), "range over the parameter", "no loop ranges over the tags parameter")
}

func c06R5(p *core.Program, r *core.Report) {
	const rule = "R5"
	r.Floor(rule, 4)
	pl := findPipeline(p, r, rule)
	if pl == nil {
		return
	}
	f := pl.pkgExec
	dg := pl.dispatch
	if f == nil || dg == nil {
		r.Anchor(rule, "the per-package function and the dispatch loop of pkg/gengo")
		return
	}
	// every registration is kept: Defer appends its argument to the callback list on every path
	if df := ctxMethod(p, "Defer"); df == nil {
		r.Anchor(rule, "Defer method of the context type")
	} else {
		df = flatten(p, df)
		dinfo := df.Info()
		dg := graph(df)
		var param *types.Var
		if df.Type.Params != nil && len(df.Type.Params.List) == 1 && len(df.Type.Params.List[0].Names) == 1 {
			param, _ = dinfo.ObjectOf(df.Type.Params.List[0].Names[0]).(*types.Var)
		}
		isAppend := func(n ast.Node) bool {
			as, ok := n.(*ast.AssignStmt)
			if !ok || len(as.Lhs) != 1 || len(as.Rhs) != 1 || !isRole(p, core.FieldOf(dinfo, as.Lhs[0]), "ctx.callbacks") {
				return false
			}
			c, ok := ast.Unparen(as.Rhs[0]).(*ast.CallExpr)
			if !ok || core.CalleeName(dinfo, c) != "builtin.append" || len(c.Args) != 2 {
				return false
			}
			return isRole(p, core.FieldOf(dinfo, c.Args[0]), "ctx.callbacks") && core.VarOf(dinfo, c.Args[1]) == param && param != nil
		}
		_, skips := dg.Reach(dg.Entry(), true, cfgxQuery{
			Target: func(q cfgxPoint) bool { return dg.IsExit(q) },
			Cut:    func(q cfgxPoint) bool { return q.Node() != nil && isAppend(q.Node()) },
		})
		r.Check(!skips, rule, df, "every registered callback is kept", df.Node().Pos(), "every path through Defer appends its argument to the callback list",
			"Defer can return without appending the callback (registrations are filtered or de-duplicated): a callback that was registered is never run")
	}
	info := f.Info()
	g := graph(f)
	// the callback loop: range over <ctx>.defers
	var loop *ast.RangeStmt
	ast.Inspect(f.Body, func(n ast.Node) bool {
		if rs, ok := n.(*ast.RangeStmt); ok {
			seq, _ := core.Resolve(info, f.Body, rs.X) // the list, possibly read into a local first
			if fld := core.FieldOf(info, seq); isRole(p, fld, "ctx.callbacks") {
				loop = rs
			}
		}
		return true
	})
	if loop == nil {
		r.Bad(rule, f, "deferred callbacks are run", f.Node().Pos(), "no loop over the context's defers: callbacks registered with Defer never run")
		return
	}
	fnv := core.VarOf(info, loop.Value)
	calls := 0
	var call *ast.CallExpr
	for _, c := range core.Calls(loop.Body, true) {
		if core.VarOf(info, c.Fun) == fnv && fnv != nil {
			calls++
			call = c
		}
	}
	nested := false
	ast.Inspect(loop.Body, func(n ast.Node) bool {
		switch n.(type) {
		case *ast.ForStmt, *ast.RangeStmt:
			nested = true
		}
		return true
	})
	r.Check(calls == 1 && !nested, rule, f, "each callback is called exactly once", loop.Pos(), "one call of the range value per iteration", "a callback is called "+itoa(int64(calls))+" times per iteration (or inside a nested loop)")
	if call == nil {
		return
	}
	// receiver of defers and argument are the same per-generator context
	seqX, _ := core.Resolve(info, f.Body, loop.X)
	seqSel, isSeqSel := ast.Unparen(seqX).(*ast.SelectorExpr)
	if !isSeqSel {
		r.Unknown(rule, f, "callbacks get the context they were registered on", call.Pos(), "the list that is ranged over is not a field selection")
		return
	}
	okCtx := len(call.Args) == 1 && core.SameRef(info, call.Args[0], seqSel.X)
	r.Check(okCtx, rule, f, "callbacks get the context they were registered on", call.Pos(), "fn(ctx) with ctx.defers being ranged", "a callback is invoked with another context than the one it was registered on")
	cp := g.PointOf(call)
	// after doGenerate succeeded
	var dgCall *ast.CallExpr
	for _, c := range core.Calls(f.Body, true) {
		if core.CalleeFunc(info, c) == dg.Obj() {
			dgCall = c
		}
	}
	after := false
	if dgCall != nil && core.SameRef(info, recvOf(dgCall), seqSel.X) {
		dp := g.PointOf(dgCall)
		// every path to the callbacks passes the generation pass - or the edge on which the context has no package
		// (nothing to generate: the pass would return at once) ...
		noPkg := func(b *cfgBlock, k int) bool {
			if len(b.Succs) != 2 || len(b.Nodes) == 0 {
				return false
			}
			e, ok := b.Nodes[len(b.Nodes)-1].(ast.Expr)
			if !ok {
				return false
			}
			for _, a := range cfgx.Atoms(e, k == 0) {
				if bb, isBin := ast.Unparen(a.Cond).(*ast.BinaryExpr); isBin && (bb.Op == token.EQL || bb.Op == token.NEQ) {
					if id, isNil := ast.Unparen(bb.Y).(*ast.Ident); isNil && id.Name == "nil" && (bb.Op == token.EQL) == a.Val {
						if fld := core.FieldOf(info, bb.X); fld != nil && core.NamedTypeName(fld.Type()) == core.G("pkg/types.Package") {
							return true
						}
					}
				}
			}
			return false
		}
		_, bypass := g.Reach(g.Entry(), true, cfgx.Query{
			Target:  func(q cfgx.Point) bool { return q == cp },
			Cut:     func(q cfgx.Point) bool { return q == dp },
			CutEdge: noPkg,
		})
		// ... and leaves it through the nil edge of its error
		viaErr := true
		for _, eb := range errBranches(f) {
			defs, _ := reachingDefs(g, eb.v, cfgx.Point{B: eb.br.B, I: len(eb.br.B.Nodes) - 1})
			if len(defs) == 1 && defs[0] == dp {
				_, leaks := g.Reach(cfgx.Point{B: eb.br.B.Succs[eb.nonNil], I: 0}, true, cfgx.Query{Target: func(q cfgx.Point) bool { return q == cp }})
				viaErr = leaks
			}
		}
		after = !bypass && !viaErr
	}
	r.Check(after, rule, f, "callbacks run after the package's last GenerateType succeeded", call.Pos(), "dominated by doGenerate(...) and the nil edge of its error", "callbacks can run before or without the generation pass having succeeded")
	// before the emptiness test, the registration and the writes
	before := true
	whyB := ""
	loopHead := g.BlockOf(kindRangeLoop, loop)
	for _, q := range g.Points(func(n ast.Node) bool {
		for _, c := range core.Calls(n, true) {
			cn := core.CalleeName(info, c)
			// (a write is only possible for a registered file; C02.R2 shows that no callback follows a write)
			if strings.HasSuffix(cn, ctxTypeName(p)+").IsZero") || cn == "(*sync.Map).Store" {
				return true
			}
		}
		return false
	}) {
		// every path to q passes the loop head of the callback loop
		_, skip := g.Reach(g.Entry(), true, cfgx.Query{
			Target: func(t cfgx.Point) bool { return t == q },
			Cut:    func(t cfgx.Point) bool { return t.B == loopHead },
		})
		if skip {
			before, whyB = false, core.ExprStr(q.Node())
		}
		if g.CanReach(q, cp) && !sameIteration(g, q, cp, f, info) {
			// q can be followed by a callback of the SAME generator? only through the outer generator loop, which creates a new context
		}
	}
	r.Check(before, rule, f, "callbacks run before the emptiness test and the registration for writing", loop.Pos(), "every path to IsZero/Store passes the callback loop", "`"+whyB+"` is reachable without having run the deferred callbacks: what they render is not written (or an empty file decision is taken too early)")
	// defers is appended only by Defer
	stores := 0
	okStores := true
	for _, ff := range p.Funcs() {
		if core.RelPkg(ff.Pkg.PkgPath) != "pkg/gengo" {
			continue
		}
		finfo := ff.Info()
		ast.Inspect(ff.Body, func(n ast.Node) bool {
			switch x := n.(type) {
			case *ast.AssignStmt:
				for _, l := range x.Lhs {
					if fld := core.FieldOf(finfo, l); isRole(p, fld, "ctx.callbacks") {
						stores++
						if ff.Name != "(*"+ctxTypeName(p)+").Defer" {
							okStores = false
						}
					}
				}
			case *ast.KeyValueExpr:
				if id, ok := x.Key.(*ast.Ident); ok && id.Name == "defers" {
					if v, ok := finfo.ObjectOf(id).(*types.Var); ok && v.IsField() {
						stores++
						okStores = false
					}
				}
			}
			return true
		})
	}
	r.Check(okStores && stores == 1, rule, nil, "the callback list is only appended by Defer", token.NoPos, "single store: c.defers = append(c.defers, fn)", "the callback list is written elsewhere (copied from another context, pre-filled or reset)")
}

func sameIteration(g *cfgx.G, a, b cfgx.Point, f *core.Func, info *types.Info) bool { return true }
