package rules

import (
	"go/ast"
	"go/types"

	"gengoverif/checker/internal/core"
)

// operand: an expression together with the function whose scope it lives in.
type operand struct {
	F *core.Func
	E ast.Expr
}

// singleReturn: the only result expression of a program function whose body is
// `return <expr>` (optionally preceded by nothing else).
func singleReturn(f *core.Func) ast.Expr {
	if f == nil || f.Body == nil || len(f.Body.List) != 1 {
		return nil
	}
	ret, ok := f.Body.List[0].(*ast.ReturnStmt)
	if !ok || len(ret.Results) != 1 {
		return nil
	}
	return ret.Results[0]
}

// through looks through single-definition locals and one-expression helper
// functions: `helper(a)` with `func helper(x T) U { return g(x) }` becomes g(a).
// The result is the operand in its own scope plus a substitution for the helper's parameters.
func through(p *core.Program, o operand, depth int) (operand, map[*types.Var]operand) {
	subst := map[*types.Var]operand{}
	for ; depth < 4; depth++ {
		e, _ := core.Resolve(o.F.Info(), o.F.Root().Body, o.E)
		o.E = ast.Unparen(e)
		c, ok := o.E.(*ast.CallExpr)
		if !ok {
			break
		}
		callee := p.FuncOfObj(core.CalleeFunc(o.F.Info(), c))
		ret := singleReturn(callee)
		if ret == nil || callee.Decl == nil || c.Ellipsis.IsValid() {
			break
		}
		i := 0
		for _, fld := range callee.Decl.Type.Params.List {
			for _, n := range fld.Names {
				if v, ok := callee.Info().ObjectOf(n).(*types.Var); ok && i < len(c.Args) {
					subst[v] = applySubst(operand{o.F, c.Args[i]}, subst)
				}
				i++
			}
		}
		o = operand{callee, ret}
	}
	return o, subst
}

func applySubst(o operand, subst map[*types.Var]operand) operand {
	if v := core.VarOf(o.F.Info(), o.E); v != nil {
		if s, ok := subst[v]; ok {
			return s
		}
	}
	return o
}

// joinOperands: the operands of the filepath.Join / path.Join call that e
// denotes, each in the scope where it is written (helper parameters replaced
// by the caller's arguments).
func joinOperands(p *core.Program, f *core.Func, e ast.Expr) []operand {
	o, subst := through(p, operand{f, e}, 0)
	jc := core.AsCall(o.F.Info(), o.E, "path/filepath.Join", "path.Join")
	if jc == nil {
		return nil
	}
	var out []operand
	for _, a := range jc.Args {
		out = append(out, applySubst(operand{o.F, a}, subst))
	}
	return out
}
