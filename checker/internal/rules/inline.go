package rules

import (
	"go/ast"
	"go/token"
	"go/types"

	"gengoverif/checker/internal/core"
)

// operand: an expression together with the function whose scope it lives in.
type operand struct {
	F *core.Func
	E ast.Expr
}

// singleReturn: the only result expression of a program function whose body is
// `return <expr>` (optionally preceded by nothing else).
func singleReturn(f *core.Func) ast.Expr {
	if f == nil || f.Body == nil || len(f.Body.List) != 1 {
		return nil
	}
	ret, ok := f.Body.List[0].(*ast.ReturnStmt)
	if !ok || len(ret.Results) != 1 {
		return nil
	}
	return ret.Results[0]
}

// through looks through single-definition locals and one-expression helper
// functions: `helper(a)` with `func helper(x T) U { return g(x) }` becomes g(a).
// The result is the operand in its own scope plus a substitution for the helper's parameters.
func through(p *core.Program, o operand, depth int) (operand, map[*types.Var]operand) {
	subst := map[*types.Var]operand{}
	for ; depth < 4; depth++ {
		e, _ := core.Resolve(o.F.Info(), o.F.Root().Body, o.E)
		o.E = ast.Unparen(e)
		c, ok := o.E.(*ast.CallExpr)
		if !ok {
			break
		}
		callee := p.FuncOfObj(core.CalleeFunc(o.F.Info(), c))
		ret := singleReturn(callee)
		if ret == nil || callee.Decl == nil || c.Ellipsis.IsValid() {
			break
		}
		// the receiver of a method helper is bound to the call's receiver expression
		if callee.Decl.Recv != nil && len(callee.Decl.Recv.List) == 1 && len(callee.Decl.Recv.List[0].Names) == 1 {
			if rv, ok := callee.Info().ObjectOf(callee.Decl.Recv.List[0].Names[0]).(*types.Var); ok {
				if sel, isSel := ast.Unparen(c.Fun).(*ast.SelectorExpr); isSel {
					subst[rv] = applySubst(operand{o.F, sel.X}, subst)
				}
			}
		}
		i := 0
		for _, fld := range callee.Decl.Type.Params.List {
			for _, n := range fld.Names {
				if v, ok := callee.Info().ObjectOf(n).(*types.Var); ok && i < len(c.Args) {
					subst[v] = applySubst(operand{o.F, c.Args[i]}, subst)
				}
				i++
			}
		}
		o = operand{callee, ret}
	}
	return o, subst
}

func applySubst(o operand, subst map[*types.Var]operand) operand {
	info := o.F.Info()
	if v := core.VarOf(info, o.E); v != nil {
		if s, ok := subst[v]; ok {
			return s
		}
	}
	// x.F with x substituted: a selector in the caller's terms. The new node shares the field
	// identifier; its selection is registered so that FieldOf / TypeOf keep working.
	if sel, ok := ast.Unparen(o.E).(*ast.SelectorExpr); ok {
		if v := core.VarOf(info, sel.X); v != nil {
			if s, ok := subst[v]; ok {
				n := &ast.SelectorExpr{X: s.E, Sel: sel.Sel}
				if selection, ok := info.Selections[sel]; ok {
					info.Selections[n] = selection
				}
				if tv, ok := info.Types[sel]; ok {
					info.Types[n] = tv
				}
				return operand{s.F, n}
			}
		}
	}
	return o
}

// joinOperands: the operands of the filepath.Join / path.Join call that e
// denotes, each in the scope where it is written (helper parameters replaced
// by the caller's arguments).
func joinOperands(p *core.Program, f *core.Func, e ast.Expr) []operand {
	o, subst := through(p, operand{f, e}, 0)
	jc := core.AsCall(o.F.Info(), o.E, "path/filepath.Join", "path.Join")
	if jc == nil {
		return nil
	}
	var out []operand
	for _, a := range jc.Args {
		out = append(out, applySubst(operand{o.F, a}, subst))
	}
	return out
}

// memberCall recognises `elem ∈ set` tests: slices.Contains(set, elem) or a
// program function that is a membership loop over its first parameter
// (`for _, m := range set { if m == elem { return true } }; return false`).
func memberCall(p *core.Program, f *core.Func, c *ast.CallExpr) (set, elem ast.Expr, ok bool) {
	info := f.Info()
	if len(c.Args) != 2 {
		return nil, nil, false
	}
	if core.CalleeName(info, c) == "slices.Contains" {
		return c.Args[0], c.Args[1], true
	}
	callee := p.FuncOfObj(core.CalleeFunc(info, c))
	if callee == nil || callee.Decl == nil || callee.Decl.Recv != nil {
		return nil, nil, false
	}
	cinfo := callee.Info()
	var ps []*types.Var
	for _, fld := range callee.Decl.Type.Params.List {
		for _, n := range fld.Names {
			if v, ok := cinfo.ObjectOf(n).(*types.Var); ok {
				ps = append(ps, v)
			}
		}
	}
	if len(ps) != 2 {
		return nil, nil, false
	}
	var loop *ast.RangeStmt
	nloops := 0
	for _, s := range callee.Body.List {
		if rs, ok := s.(*ast.RangeStmt); ok {
			loop = rs
			nloops++
		}
	}
	if nloops != 1 || core.VarOf(cinfo, loop.X) != ps[0] || loop.Value == nil {
		return nil, nil, false
	}
	m := core.VarOf(cinfo, loop.Value)
	g := graph(callee)
	nTrue, nFalse, bad := 0, 0, false
	ast.Inspect(callee.Body, func(n ast.Node) bool {
		switch x := n.(type) {
		case *ast.BranchStmt:
			bad = true
		case *ast.FuncLit:
			bad = true
		case *ast.ReturnStmt:
			if len(x.Results) != 1 {
				bad = true
				return true
			}
			tv := cinfo.Types[x.Results[0]]
			inLoop := loop.Body.Pos() <= x.Pos() && x.Pos() < loop.Body.End()
			switch {
			case tv.Value != nil && tv.Value.String() == "true" && inLoop:
				eq := false
				for _, fct := range g.FactsAt(g.PointOf(x)) {
					if v, ok := eqFact(fct, func(e ast.Expr) bool { return core.VarOf(cinfo, e) == m }, func(e ast.Expr) bool { return core.VarOf(cinfo, e) == ps[1] }); ok && v {
						eq = true
					}
				}
				if !eq {
					bad = true
				}
				nTrue++
			case tv.Value != nil && tv.Value.String() == "false" && !inLoop:
				nFalse++
			default:
				bad = true
			}
		}
		return true
	})
	if bad || nTrue == 0 || nFalse == 0 {
		return nil, nil, false
	}
	return c.Args[0], c.Args[1], true
}

// structInits: how a constructor initialises the struct value it returns, by field object:
// the elements of the returned `&T{...}` literal (directly or through a single-definition local)
// plus, for a local `x := &T{...}`, the field-by-field assignments `x.f = v` of the body.
// ok is false when the returned value is not such a fresh literal or a field is assigned twice.
func structInits(info *types.Info, body *ast.BlockStmt, result ast.Expr) (map[*types.Var]ast.Expr, bool) {
	out, _, ok := structInitsEx(info, body, result)
	return out, ok
}

// structInitsEx also looks into the literals of struct-typed (embedded) parts - their fields are reported like the
// outer ones - and reports, for a part that is copied as a whole from another value (`pkgScope: other.pkgScope`), each
// of the part's fields in `copies` with the expression the part is copied from.
func structInitsEx(info *types.Info, body *ast.BlockStmt, result ast.Expr) (map[*types.Var]ast.Expr, map[*types.Var]ast.Expr, bool) {
	out := map[*types.Var]ast.Expr{}
	copies := map[*types.Var]ast.Expr{}
	fail := func() (map[*types.Var]ast.Expr, map[*types.Var]ast.Expr, bool) { return nil, nil, false }
	holder := core.VarOf(info, result)
	e, _ := core.Resolve(info, body, result)
	e = ast.Unparen(e)
	if u, ok := e.(*ast.UnaryExpr); ok && u.Op == token.AND {
		e = ast.Unparen(u.X)
	}
	cl, ok := e.(*ast.CompositeLit)
	if !ok {
		if c, isCall := e.(*ast.CallExpr); isCall && core.CalleeName(info, c) == "builtin.new" {
			cl = &ast.CompositeLit{}
		} else {
			return fail()
		}
	}
	var collect func(cl *ast.CompositeLit, depth int) bool
	collect = func(cl *ast.CompositeLit, depth int) bool {
		for _, el := range cl.Elts {
			kv, ok := el.(*ast.KeyValueExpr)
			if !ok {
				return false // positional literal
			}
			id, _ := kv.Key.(*ast.Ident)
			if id == nil {
				return false
			}
			fld, ok := info.ObjectOf(id).(*types.Var)
			if !ok || !fld.IsField() {
				continue
			}
			out[fld] = kv.Value
			// a struct-typed part held by value
			st, isStruct := fld.Type().Underlying().(*types.Struct)
			if !isStruct || depth > 3 {
				continue
			}
			if _, isNamed := types.Unalias(fld.Type()).(*types.Named); !isNamed {
				continue
			}
			if inner, isLit := ast.Unparen(kv.Value).(*ast.CompositeLit); isLit {
				if !collect(inner, depth+1) {
					return false
				}
				continue
			}
			for i := 0; i < st.NumFields(); i++ {
				copies[st.Field(i)] = kv.Value
			}
		}
		return true
	}
	if !collect(cl, 0) {
		return fail()
	}
	if holder != nil {
		good := true
		ast.Inspect(body, func(n ast.Node) bool {
			as, ok := n.(*ast.AssignStmt)
			if !ok {
				return true
			}
			for i, l := range as.Lhs {
				sel, isSel := ast.Unparen(l).(*ast.SelectorExpr)
				if !isSel || core.VarOf(info, sel.X) != holder {
					continue
				}
				fld := core.FieldOf(info, sel)
				if fld == nil || i >= len(as.Rhs) || len(as.Lhs) != len(as.Rhs) || as.Tok != token.ASSIGN {
					good = false
					continue
				}
				if _, dup := out[fld]; dup {
					good = false
				}
				out[fld] = as.Rhs[i]
			}
			return true
		})
		if !good {
			return fail()
		}
	}
	return out, copies, true
}
