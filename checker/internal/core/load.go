// Package core holds the loader, the obligation model and the evidence writer
// shared by all rules.
package core

import (
	"fmt"
	"go/ast"
	"go/token"
	"go/types"
	"os"
	"sort"
	"strings"

	"golang.org/x/tools/go/packages"
	"golang.org/x/tools/go/types/typeutil"
)

const ModulePath = "github.com/octohelm/gengo"

// GoBin holds the go1.26.8 toolchain; the default go (1.23) cannot type-check
// a module that declares go 1.24.
const GoBin = "/opt/veriftools/go1.26.8/bin"

// Scope is the set of library packages (relative to the module root) every run
// must see; a missing one fails the check instead of passing vacuously.
var Scope = []string{
	"pkg/camelcase",
	"pkg/gengo",
	"pkg/gengo/internal",
	"pkg/gengo/snippet",
	"pkg/inflector",
	"pkg/inflector/internal",
	"pkg/namer",
	"pkg/sumfile",
	"pkg/types",
	"devpkg/deepcopygen",
	"devpkg/deepcopygen/helper",
	"devpkg/defaultergen",
	"devpkg/partialstruct",
	"devpkg/runtimedocgen",
}

type Program struct {
	Repo  string
	Fset  *token.FileSet
	All   []*packages.Package
	byRel map[string]*packages.Package

	funcs     []*Func
	funcsOnce bool
	flat      map[*Func]*Func
	pobjs     map[*Func][]paramObj
	// CanonNotes: unexported anchors that carry another name in the tree than the rules use, and were analysed under
	// the canonical one (see anchors.go)
	CanonNotes []string
	// Opaque: helpers Flatten must keep as calls (set by the rules package)
	Opaque func(*Func) bool
	// OpaqueGeneral: helpers that may be inlined in the exact forms only, not in the general (labelled switch) form
	OpaqueGeneral func(*Func) bool
}

// Load type-checks the library packages of the repository from source (their
// dependencies come from export data built by the go command).
func Load(repo string, overlay map[string][]byte) (*Program, error) {
	p, err := loadRaw(repo, overlay)
	if err != nil {
		return nil, err
	}
	return Canonicalise(p, repo, overlay), nil
}

func loadRaw(repo string, overlay map[string][]byte) (*Program, error) {
	// the go command is looked up through this process's PATH
	if !strings.HasPrefix(os.Getenv("PATH"), GoBin+":") {
		os.Setenv("PATH", GoBin+":"+os.Getenv("PATH"))
	}
	os.Unsetenv("GOWORK")
	env := os.Environ()
	env = append(env, "GOFLAGS=-mod=mod", "GOPROXY=off", "GOSUMDB=off", "GOWORK=off", "GOTOOLCHAIN=local")
	fset := token.NewFileSet()
	cfg := &packages.Config{
		Mode: packages.NeedName | packages.NeedFiles | packages.NeedCompiledGoFiles | packages.NeedImports |
			packages.NeedTypes | packages.NeedTypesSizes | packages.NeedSyntax | packages.NeedTypesInfo | packages.NeedModule,
		Dir:     repo,
		Env:     env,
		Fset:    fset,
		Overlay: overlay,
	}
	pkgs, err := packages.Load(cfg, "./...")
	if err != nil {
		return nil, fmt.Errorf("load %s: %w", repo, err)
	}
	p := &Program{Repo: repo, Fset: fset, byRel: map[string]*packages.Package{}}
	var errs []string
	for _, pkg := range pkgs {
		rel := strings.TrimPrefix(strings.TrimPrefix(pkg.PkgPath, ModulePath), "/")
		if strings.HasPrefix(rel, "testdata") || strings.Contains(rel, "__generators__") {
			continue
		}
		for _, e := range pkg.Errors {
			errs = append(errs, e.Error())
		}
		if pkg.IllTyped {
			errs = append(errs, pkg.PkgPath+": ill-typed")
		}
		p.All = append(p.All, pkg)
		p.byRel[rel] = pkg
	}
	if len(errs) > 0 {
		return nil, fmt.Errorf("repository does not type-check: %s", strings.Join(errs, "; "))
	}
	for _, rel := range Scope {
		if p.byRel[rel] == nil {
			return nil, fmt.Errorf("package %s/%s not loaded (got %d packages)", ModulePath, rel, len(p.All))
		}
	}
	sort.Slice(p.All, func(i, j int) bool { return p.All[i].PkgPath < p.All[j].PkgPath })
	desugarSliceIterators(p.All)
	desugarForwardingClosures(p.All)
	indexFuncAliases(p.All)
	return p, nil
}

// funcAlias: local variables that are nothing but another name of a function or method value: defined once by
// `v := pkg.F` / `v := x.M`, never assigned again, address never taken. A call of such a variable is a call of the
// function (CalleeName / CalleeFunc resolve it).
var funcAlias = map[*types.Var]*types.Func{}

func indexFuncAliases(pkgs []*packages.Package) {
	funcAlias = map[*types.Var]*types.Func{}
	for _, pkg := range pkgs {
		info := pkg.TypesInfo
		if info == nil {
			continue
		}
		writes := map[*types.Var]int{}
		cand := map[*types.Var]*types.Func{}
		for _, file := range pkg.Syntax {
			ast.Inspect(file, func(n ast.Node) bool {
				switch x := n.(type) {
				case *ast.AssignStmt:
					for i, l := range x.Lhs {
						id, ok := l.(*ast.Ident)
						if !ok {
							continue
						}
						v, _ := info.ObjectOf(id).(*types.Var)
						if v == nil {
							continue
						}
						writes[v]++
						if x.Tok != token.DEFINE || len(x.Lhs) != len(x.Rhs) {
							continue
						}
						var fn *types.Func
						switch e := ast.Unparen(x.Rhs[i]).(type) {
						case *ast.Ident:
							fn, _ = info.Uses[e].(*types.Func)
						case *ast.SelectorExpr:
							fn, _ = info.Uses[e.Sel].(*types.Func)
						}
						if fn != nil {
							cand[v] = fn
						}
					}
				case *ast.UnaryExpr:
					if x.Op == token.AND {
						if id, ok := ast.Unparen(x.X).(*ast.Ident); ok {
							if v, _ := info.ObjectOf(id).(*types.Var); v != nil {
								writes[v] += 2
							}
						}
					}
				case *ast.IncDecStmt:
					if id, ok := x.X.(*ast.Ident); ok {
						if v, _ := info.ObjectOf(id).(*types.Var); v != nil {
							writes[v]++
						}
					}
				}
				return true
			})
		}
		for v, fn := range cand {
			if writes[v] == 1 {
				funcAlias[v] = fn.Origin()
			}
		}
	}
}

func (p *Program) Pkg(rel string) *packages.Package { return p.byRel[rel] }

// InScope lists the library packages in a fixed order.
func (p *Program) InScope() []*packages.Package {
	var out []*packages.Package
	for _, pkg := range p.All {
		rel := RelPkg(pkg.PkgPath)
		if rel == "" {
			continue // root doc package
		}
		out = append(out, pkg)
	}
	return out
}

func RelPkg(pkgPath string) string {
	return strings.TrimPrefix(strings.TrimPrefix(pkgPath, ModulePath), "/")
}

// Func is a function body in scope: a declaration or a function literal.
type Func struct {
	Pkg    *packages.Package
	Name   string // "(*gengoCtx).Execute", "newGenfile", "(*printer).Frag$1"
	Decl   *ast.FuncDecl
	Lit    *ast.FuncLit
	Parent *Func // for literals
	Body   *ast.BlockStmt
	Type   *ast.FuncType
	Lits   []*Func // directly nested literals

	// set on flattened views only (see Flatten)
	Origin  *Func          // the declared function the view was made from
	Members map[*Func]bool // Origin and every helper whose statements were inlined
}

func (f *Func) Node() ast.Node {
	if f.Decl != nil {
		return f.Decl
	}
	return f.Lit
}

func (f *Func) Root() *Func {
	for f.Parent != nil {
		f = f.Parent
	}
	return f
}

// QName is the package-relative qualified name used in obligation keys.
func (f *Func) QName() string { return RelPkg(f.Pkg.PkgPath) + "." + f.Name }

func (f *Func) Info() *types.Info { return f.Pkg.TypesInfo }

// Obj returns the *types.Func of a declared function.
func (f *Func) Obj() *types.Func {
	if f.Decl == nil {
		return nil
	}
	o, _ := f.Pkg.TypesInfo.Defs[f.Decl.Name].(*types.Func)
	return o
}

func declName(d *ast.FuncDecl) string {
	if d.Recv == nil || len(d.Recv.List) == 0 {
		return d.Name.Name
	}
	t := d.Recv.List[0].Type
	star := ""
	if s, ok := t.(*ast.StarExpr); ok {
		star = "*"
		t = s.X
	}
	for {
		switch x := t.(type) {
		case *ast.IndexExpr:
			t = x.X
			continue
		case *ast.IndexListExpr:
			t = x.X
			continue
		case *ast.ParenExpr:
			t = x.X
			continue
		}
		break
	}
	name := "?"
	if id, ok := t.(*ast.Ident); ok {
		name = id.Name
	}
	if star != "" {
		return "(*" + name + ")." + d.Name.Name
	}
	return name + "." + d.Name.Name
}

// Funcs enumerates every function body in scope (declarations and literals).
func (p *Program) Funcs() []*Func {
	if p.funcsOnce {
		return p.funcs
	}
	p.funcsOnce = true
	for _, pkg := range p.InScope() {
		for _, file := range pkg.Syntax {
			for _, d := range file.Decls {
				switch d := d.(type) {
				case *ast.FuncDecl:
					if d.Body == nil {
						continue
					}
					f := &Func{Pkg: pkg, Name: declName(d), Decl: d, Body: d.Body, Type: d.Type}
					p.funcs = append(p.funcs, f)
					p.collectLits(f, d.Body)
				case *ast.GenDecl:
					// literals in package-level initialisers
					holder := &Func{Pkg: pkg, Name: "<pkginit>"}
					n := 0
					ast.Inspect(d, func(node ast.Node) bool {
						if lit, ok := node.(*ast.FuncLit); ok {
							n++
							name := fmt.Sprintf("<pkginit>$%d", n)
							if vs := enclosingValueSpecName(d, lit); vs != "" {
								name = "var " + vs + "$" + fmt.Sprint(n)
							}
							f := &Func{Pkg: pkg, Name: name, Lit: lit, Body: lit.Body, Type: lit.Type, Parent: nil}
							_ = holder
							p.funcs = append(p.funcs, f)
							p.collectLits(f, lit.Body)
							return false
						}
						return true
					})
				}
			}
		}
	}
	return p.funcs
}

func enclosingValueSpecName(d *ast.GenDecl, lit *ast.FuncLit) string {
	for _, s := range d.Specs {
		vs, ok := s.(*ast.ValueSpec)
		if !ok {
			continue
		}
		if vs.Pos() <= lit.Pos() && lit.End() <= vs.End() {
			for i, v := range vs.Values {
				if v.Pos() <= lit.Pos() && lit.End() <= v.End() && i < len(vs.Names) {
					return vs.Names[i].Name
				}
			}
			if len(vs.Names) > 0 {
				return vs.Names[0].Name
			}
		}
	}
	return ""
}

func (p *Program) collectLits(parent *Func, body ast.Node) {
	n := 0
	ast.Inspect(body, func(node ast.Node) bool {
		if lit, ok := node.(*ast.FuncLit); ok {
			n++
			f := &Func{Pkg: parent.Pkg, Name: fmt.Sprintf("%s$%d", parent.Name, n), Lit: lit, Body: lit.Body, Type: lit.Type, Parent: parent}
			parent.Lits = append(parent.Lits, f)
			p.funcs = append(p.funcs, f)
			p.collectLits(f, lit.Body)
			return false
		}
		return true
	})
}

// FuncByName finds a declared function by package (relative) and name.
func (p *Program) FuncByName(rel, name string) *Func {
	for _, f := range p.Funcs() {
		if f.Decl != nil && RelPkg(f.Pkg.PkgPath) == rel && f.Name == name {
			return f
		}
	}
	// `(*T).m` asked for, and m is now a method-like function `m(…, x *T, …)`: its view, in which x is the receiver
	if strings.HasPrefix(name, "(*") && strings.Contains(name, ").") {
		tname := name[2:strings.Index(name, ").")]
		mname := name[strings.Index(name, ").")+2:]
		for _, f := range p.Funcs() {
			if f.Decl == nil || f.Decl.Recv != nil || RelPkg(f.Pkg.PkgPath) != rel || f.Decl.Name.Name != mname || f.Obj() == nil {
				continue
			}
			k := MethodLikeFunc(f.Pkg.Types, f.Obj())
			if k < 0 {
				continue
			}
			sig := f.Obj().Type().(*types.Signature)
			if pt, ok := sig.Params().At(k).Type().(*types.Pointer); ok {
				if nt, ok := types.Unalias(pt.Elem()).(*types.Named); ok && nt.Obj().Name() == tname {
					return p.Flatten(f)
				}
			}
		}
	}
	return nil
}

// FuncOfLit returns the Func record of a literal.
func (p *Program) FuncOfLit(lit *ast.FuncLit) *Func {
	for _, f := range p.Funcs() {
		if f.Lit == lit {
			return f
		}
	}
	return nil
}

// FuncOfObj returns the body of a declared function object, if in scope.
func (p *Program) FuncOfObj(o *types.Func) *Func {
	if o == nil {
		return nil
	}
	o = o.Origin()
	for _, f := range p.Funcs() {
		if f.Decl != nil && f.Obj() == o {
			return f
		}
	}
	return nil
}

// EnclosingFunc returns the innermost function body containing pos.
func (p *Program) EnclosingFunc(pkg *packages.Package, pos token.Pos) *Func {
	var best *Func
	for _, f := range p.Funcs() {
		if f.Pkg != pkg || f.Body == nil {
			continue
		}
		n := f.Node()
		if n.Pos() <= pos && pos < n.End() {
			if best == nil || (best.Node().Pos() <= n.Pos() && n.End() <= best.Node().End()) {
				best = f
			}
		}
	}
	return best
}

// Pos renders a position relative to the repository root.
func (p *Program) Pos(pos token.Pos) string {
	if !pos.IsValid() {
		return "-"
	}
	pp := p.Fset.Position(pos)
	name := strings.TrimPrefix(pp.Filename, p.Repo+"/")
	return fmt.Sprintf("%s:%d", name, pp.Line)
}

// CalleeName resolves the callee of a call through the type checker:
// "os.OpenFile", "(*os.File).Write", "(github.com/x/y.I).M", or "" when the
// callee is not a named function/method (func value, conversion, builtin
// reported as "builtin.<name>").
func CalleeName(info *types.Info, call *ast.CallExpr) string {
	obj := typeutil.Callee(info, call)
	switch o := obj.(type) {
	case *types.Func:
		return o.Origin().FullName()
	case *types.Builtin:
		return "builtin." + o.Name()
	case *types.Var:
		if fn := funcAlias[o]; fn != nil {
			return fn.FullName()
		}
	}
	return ""
}

func CalleeFunc(info *types.Info, call *ast.CallExpr) *types.Func {
	switch o := typeutil.Callee(info, call).(type) {
	case *types.Func:
		return o.Origin()
	case *types.Var:
		return funcAlias[o]
	}
	return nil
}

// G qualifies a name with the gengo module path: G("pkg/gengo.Register").
func G(s string) string { return ModulePath + "/" + s }

// GM builds the FullName of a method in a gengo package:
// GM("pkg/sumfile", "*File", "Save") = "(*github.com/octohelm/gengo/pkg/sumfile.File).Save".
func GM(rel, recv, method string) string {
	star := ""
	if strings.HasPrefix(recv, "*") {
		star = "*"
		recv = recv[1:]
	}
	return "(" + star + ModulePath + "/" + rel + "." + recv + ")." + method
}

// desugarSliceIterators shows `for i, v := range slices.All(s)` as `for i, v := range s` and `for v := range
// slices.Values(s)` as `for _, v := range s` to every rule: the standard iterators yield the same indices and elements
// in the same order, evaluate s once, and break/return leave them like the plain loop. The nodes are edited in place
// (the operand keeps its recorded type, the loop variables their objects), so positions and reports are unchanged.
func desugarSliceIterators(pkgs []*packages.Package) {
	for _, pkg := range pkgs {
		info := pkg.TypesInfo
		for _, file := range pkg.Syntax {
			ast.Inspect(file, func(n ast.Node) bool {
				rs, ok := n.(*ast.RangeStmt)
				if !ok {
					return true
				}
				call, ok := ast.Unparen(rs.X).(*ast.CallExpr)
				if !ok || len(call.Args) != 1 || call.Ellipsis.IsValid() {
					return true
				}
				fn := CalleeFunc(info, call)
				if fn == nil || fn.Pkg() == nil || fn.Pkg().Path() != "slices" {
					return true
				}
				if t := info.TypeOf(call.Args[0]); t == nil {
					return true
				} else if _, isSlice := t.Underlying().(*types.Slice); !isSlice {
					return true
				}
				switch fn.Name() {
				case "All":
					rs.X = call.Args[0]
				case "Values":
					if rs.Value != nil {
						return true
					}
					rs.X = call.Args[0]
					if rs.Key != nil {
						rs.Value = rs.Key
						rs.Key = &ast.Ident{NamePos: rs.Value.Pos(), Name: "_"}
					}
				}
				return true
			})
		}
	}
}
