package core

import (
	"fmt"
	"go/ast"
	"go/token"
	"go/types"
)

// Flatten returns a view of a declared function in which calls to helper
// functions of the same package are replaced by the helper's statements, so
// that a rule written against one function body keeps seeing its constructs
// after an "extract function" refactoring.
//
// Only call forms whose replacement is an exact source-level equivalent are
// inlined:
//
//	return h(args)            h's statements follow; its returns return from the caller
//	x, y := h(args)           h ends in its only `return a, b`: statements, then x, y := a, b
//	h(args)                   h has no result and no return statement
//	x, y := h(args)           any other helper (several returns): the statements are wrapped in
//	if x := h(args); c {..}   a labelled `switch { default: ... }` and every `return a, b` of the
//	h(args)                   helper becomes `x, y = a, b; break <label>` (go/cfg resolves the label)
//
// Parameters (and the receiver) become single-definition locals `param := arg`
// carrying the helper's own *types.Var, registered in the package's types.Info,
// so Resolve/SingleDef look through them. All other nodes are the original
// nodes (positions and type information unchanged); only the statement lists on
// the path to an inlined call are copied. Only unexported helpers are inlined
// (exported functions are API the rules name), and none for which p.Opaque
// answers true (helpers a rule treats as one step). A helper is not inlined when it
// defers, recovers, uses named results (names that are never mentioned and never returned bare do not count), has labels or gotos, is variadic without an
// ellipsis call, recurses, or would appear twice in the same flattened body.
// When nothing is inlined the function itself is returned.
func (p *Program) Flatten(f *Func) *Func {
	if f == nil || f.Decl == nil || f.Body == nil || f.Origin != nil {
		return f // nothing to show differently, or a view already
	}
	if p.flat == nil {
		p.flat = map[*Func]*Func{}
	}
	if ff, ok := p.flat[f]; ok {
		return ff
	}
	fl := &flattener{p: p, info: f.Info(), pkg: f.Pkg.Types, stack: map[*Func]bool{f: true}, count: map[*Func]int{}, inlined: map[*Func]bool{}}
	// the several returns behind a single-exit spelling (see tailReturns)
	// calls of one-line unexported getters / predicates as the expression they return (see inlineGetters); parameter
	// objects as the parameters they stand for (see paramObjects)
	declV := f.Decl
	if d2 := methodLikeDecl(f); d2 != nil {
		declV = d2
	}
	gi := &getterInliner{p: p, info: f.Info(), pkg: f.Pkg.Types}
	if d3, sub := p.paramObjDecl(f, declV); d3 != nil {
		declV, gi.selSubst = d3, sub
	}
	srcBody := f.Body
	// a local closure's parameter object as its parameters (copies the body, literals included; rare)
	if cb, cch := closureParamObjects(f.Info(), f.Pkg.Types, f.Body); cch {
		srcBody = cb
	}
	bodyG, gch := gi.block(srcBody)
	gch = gch || srcBody != f.Body
	body0, tch := tailReturns(f.Info(), bodyG)
	tch = tch || gch
	// hand-written element loops as the range loops they stand for (see rangeLoops)
	if lb, lch := rangeLoops(f.Info(), f.Pkg.Types, bodyG, body0); lch {
		body0, tch = lb, true
	}
	// first pass: how often would each helper be inlined
	fl.dry = true
	fl.block(body0)
	fl.dry = false
	body, changed := fl.block(body0)
	if !changed && !tch && declV == f.Decl {
		p.flat[f] = f
		return f
	}
	ff := &Func{Pkg: f.Pkg, Name: f.Name, Decl: f.Decl, Body: body, Type: f.Type, Members: map[*Func]bool{f: true}, Origin: f}
	if declV != f.Decl {
		ff.Decl, ff.Type = declV, declV.Type // the object parameter shown as the receiver it is, parameter objects as parameters
	}
	for h := range fl.inlined {
		ff.Members[h] = true
	}
	n := 0
	var collect func(parent *Func, body ast.Node)
	collect = func(parent *Func, body ast.Node) {
		ast.Inspect(body, func(node ast.Node) bool {
			if lit, ok := node.(*ast.FuncLit); ok {
				n++
				l := &Func{Pkg: f.Pkg, Name: fmt.Sprintf("%s$%d", f.Name, n), Lit: lit, Body: lit.Body, Type: lit.Type, Parent: parent}
				parent.Lits = append(parent.Lits, l)
				collect(l, lit.Body)
				return false
			}
			return true
		})
	}
	collect(ff, body)
	p.flat[f] = ff
	return ff
}

// Has reports whether g (a real function or literal) is part of the flattened view f.
func (f *Func) Has(g *Func) bool {
	if f == nil || g == nil {
		return false
	}
	if f == g || f.Origin == g {
		return true
	}
	for x := g; x != nil; x = x.Parent {
		if x == f || f.Members[x] || (x.Origin != nil && (x.Origin == f.Origin || f.Members[x.Origin])) {
			return true
		}
	}
	return false
}

// AllFuncs: the flattened function and all its (nested) literals.
func (f *Func) AllFuncs() []*Func {
	out := []*Func{f}
	for _, l := range f.Lits {
		out = append(out, l.AllFuncs()...)
	}
	return out
}

type flattener struct {
	p       *Program
	info    *types.Info
	pkg     *types.Package
	stack   map[*Func]bool
	count   map[*Func]int
	inlined map[*Func]bool
	dry     bool
	ret     *retCtx // set while the statements of a helper inlined in "general" form are rewritten
	nlabel  int
}

// retCtx: what a `return` of the helper being inlined turns into.
type retCtx struct {
	lhs   []ast.Expr
	tok   token.Token
	label *ast.Ident
}

func (fl *flattener) block(b *ast.BlockStmt) (*ast.BlockStmt, bool) {
	if b == nil {
		return nil, false
	}
	list, ch := fl.stmts(b.List)
	if !ch {
		return b, false
	}
	return &ast.BlockStmt{Lbrace: b.Lbrace, List: list, Rbrace: b.Rbrace}, true
}

func (fl *flattener) stmts(list []ast.Stmt) ([]ast.Stmt, bool) {
	var out []ast.Stmt
	changed := false
	for _, s := range list {
		repl, ch := fl.stmt(s)
		if ch {
			changed = true
			out = append(out, repl...)
		} else {
			out = append(out, s)
		}
	}
	if !changed {
		return list, false
	}
	return out, true
}

// helperOf: the in-scope, same-package declared function a call statically resolves to.
func (fl *flattener) helperOf(c *ast.CallExpr) *Func {
	h := fl.p.FuncOfObj(CalleeFunc(fl.info, c))
	if h == nil || h.Decl == nil || h.Body == nil || h.Pkg.Types != fl.pkg || fl.stack[h] {
		return nil
	}
	if h.Decl.Type.TypeParams != nil || h.Decl.Name.IsExported() {
		return nil
	}
	if fl.p.Opaque != nil && fl.p.Opaque(h) {
		return nil
	}
	// parameters
	nparams := 0
	variadic := false
	for _, fld := range h.Decl.Type.Params.List {
		k := len(fld.Names)
		if k == 0 {
			k = 1
		}
		nparams += k
		if _, ok := fld.Type.(*ast.Ellipsis); ok {
			variadic = true
		}
	}
	if variadic && !c.Ellipsis.IsValid() {
		return nil
	}
	if nparams != len(c.Args) {
		return nil // f(g()) multi-value forwarding
	}
	if h.Decl.Type.Results != nil {
		// named results are accepted when they are mere documentation: every return lists its results and the
		// body never mentions the names
		named := map[types.Object]bool{}
		for _, fld := range h.Decl.Type.Results.List {
			for _, n := range fld.Names {
				if o := fl.info.Defs[n]; o != nil && n.Name != "_" {
					named[o] = true
				}
			}
		}
		if len(named) > 0 {
			used := false
			ast.Inspect(h.Body, func(n ast.Node) bool {
				switch x := n.(type) {
				case *ast.Ident:
					if named[fl.info.Uses[x]] || named[fl.info.Defs[x]] {
						used = true
					}
				case *ast.ReturnStmt:
					if len(x.Results) == 0 {
						used = true // a bare return reads them
					}
				}
				return !used
			})
			if used {
				return nil
			}
		}
	}
	if h.Decl.Recv != nil {
		// method expression / interface dispatch are not static helper calls
		sel, ok := ast.Unparen(c.Fun).(*ast.SelectorExpr)
		if !ok {
			return nil
		}
		// a static method call, directly or promoted through embedded fields (the receiver is then bound to
		// the outer value: field selections on it keep their own recorded selections)
		if s := fl.info.Selections[sel]; s == nil || s.Kind() != types.MethodVal {
			return nil
		} else if _, isIface := s.Recv().Underlying().(*types.Interface); isIface {
			return nil
		}
	}
	bad := false
	ast.Inspect(h.Body, func(n ast.Node) bool {
		switch x := n.(type) {
		case *ast.FuncLit:
			return false
		case *ast.DeferStmt, *ast.LabeledStmt:
			bad = true
		case *ast.BranchStmt:
			if x.Tok == token.GOTO || x.Label != nil {
				bad = true
			}
		case *ast.CallExpr:
			if id, ok := ast.Unparen(x.Fun).(*ast.Ident); ok && id.Name == "recover" {
				bad = true
			}
		}
		return !bad
	})
	if bad {
		return nil
	}
	return h
}

func ownReturns(h *Func) []*ast.ReturnStmt {
	var out []*ast.ReturnStmt
	ast.Inspect(h.Body, func(n ast.Node) bool {
		switch x := n.(type) {
		case *ast.FuncLit:
			return false
		case *ast.ReturnStmt:
			out = append(out, x)
		}
		return true
	})
	return out
}

// binds: `param := arg` for the receiver and every named parameter.
func (fl *flattener) binds(h *Func, c *ast.CallExpr) []ast.Stmt {
	var out []ast.Stmt
	bind := func(name *ast.Ident, arg ast.Expr) {
		if name == nil || name.Name == "_" {
			// the argument is still evaluated
			out = append(out, &ast.ExprStmt{X: arg})
			return
		}
		v, _ := fl.info.Defs[name].(*types.Var)
		if v == nil {
			return
		}
		id := &ast.Ident{Name: name.Name, NamePos: arg.Pos()}
		fl.info.Defs[id] = v
		out = append(out, &ast.AssignStmt{Lhs: []ast.Expr{id}, TokPos: arg.Pos(), Tok: token.DEFINE, Rhs: []ast.Expr{arg}})
	}
	if h.Decl.Recv != nil && len(h.Decl.Recv.List) == 1 {
		sel := ast.Unparen(c.Fun).(*ast.SelectorExpr)
		var name *ast.Ident
		if len(h.Decl.Recv.List[0].Names) == 1 {
			name = h.Decl.Recv.List[0].Names[0]
		}
		if name != nil && name.Name != "_" {
			bind(name, sel.X)
		}
	}
	i := 0
	for _, fld := range h.Decl.Type.Params.List {
		if len(fld.Names) == 0 {
			bind(nil, c.Args[i])
			i++
			continue
		}
		for _, n := range fld.Names {
			bind(n, c.Args[i])
			i++
		}
	}
	return out
}

func (fl *flattener) inlineBody(h *Func, c *ast.CallExpr, dropLast bool) []ast.Stmt {
	fl.count[h]++
	if fl.dry {
		// still descend, to count nested helpers
		fl.stack[h] = true
		fl.stmts(h.Body.List)
		delete(fl.stack, h)
		return nil
	}
	fl.inlined[h] = true
	out := fl.binds(h, c)
	fl.stack[h] = true
	body := h.Body.List
	if dropLast && len(body) > 0 {
		body = body[:len(body)-1]
	}
	inner, _ := fl.stmts(body)
	delete(fl.stack, h)
	return append(out, inner...)
}

// inlineGeneral: binds, then `L: switch { default: <statements of h with returns rewritten> }`.
func (fl *flattener) inlineGeneral(h *Func, c *ast.CallExpr, lhs []ast.Expr, tok token.Token) []ast.Stmt {
	fl.count[h]++
	saved := fl.ret
	defer func() { fl.ret = saved }()
	if fl.dry {
		fl.stack[h] = true
		fl.ret = &retCtx{}
		fl.stmts(h.Body.List)
		delete(fl.stack, h)
		return nil
	}
	fl.inlined[h] = true
	out := fl.binds(h, c)
	fl.nlabel++
	label := &ast.Ident{Name: fmt.Sprintf("_inlined%d_%s", fl.nlabel, h.Decl.Name.Name), NamePos: c.Pos()}
	// a multi-value `x, y := h()` whose helper returns `return g()` keeps the single call on the right
	fl.ret = &retCtx{lhs: lhs, tok: tok, label: label}
	fl.stack[h] = true
	body, _ := fl.stmts(h.Body.List)
	delete(fl.stack, h)
	if len(body) == 0 {
		body = h.Body.List
	}
	sw := &ast.SwitchStmt{Switch: c.Pos(), Body: &ast.BlockStmt{Lbrace: c.Pos(), List: []ast.Stmt{
		&ast.CaseClause{Case: c.Pos(), Colon: c.Pos(), Body: body},
	}, Rbrace: c.End()}}
	return append(out, &ast.LabeledStmt{Label: label, Colon: c.Pos(), Stmt: sw})
}

// rangeOfCallback: `m.Range(func(k, v any) bool { ... })` on a sync.Map is the desugared form of
// `for k, v := range m.Range { ... }` (return false = break, return true = continue). The flattened
// view shows the loop, so that rules written for one spelling see the other. Only literal callbacks
// whose returns are constants and not nested in an inner loop/switch/select are rewritten.
func (fl *flattener) rangeOfCallback(x *ast.ExprStmt) *ast.RangeStmt {
	c, ok := ast.Unparen(x.X).(*ast.CallExpr)
	if !ok || len(c.Args) != 1 {
		return nil
	}
	sel, ok := ast.Unparen(c.Fun).(*ast.SelectorExpr)
	if !ok {
		return nil
	}
	if fn, _ := fl.info.ObjectOf(sel.Sel).(*types.Func); fn == nil || fn.FullName() != "(*sync.Map).Range" {
		return nil
	}
	lit, ok := ast.Unparen(c.Args[0]).(*ast.FuncLit)
	if !ok || lit.Type.Params == nil {
		return nil
	}
	var ids []*ast.Ident
	for _, f := range lit.Type.Params.List {
		ids = append(ids, f.Names...)
	}
	if len(ids) != 2 {
		return nil
	}
	okAll := true
	var rewrite func(list []ast.Stmt, nested bool) []ast.Stmt
	rewrite = func(list []ast.Stmt, nested bool) []ast.Stmt {
		out := make([]ast.Stmt, 0, len(list))
		for _, s := range list {
			switch y := s.(type) {
			case *ast.ReturnStmt:
				if nested || len(y.Results) != 1 {
					okAll = false
					return list
				}
				tv := fl.info.Types[y.Results[0]]
				if tv.Value == nil {
					okAll = false
					return list
				}
				tok := token.BREAK
				if tv.Value.String() == "true" {
					tok = token.CONTINUE
				}
				out = append(out, &ast.BranchStmt{TokPos: y.Pos(), Tok: tok})
			case *ast.BlockStmt:
				out = append(out, &ast.BlockStmt{Lbrace: y.Lbrace, List: rewrite(y.List, nested), Rbrace: y.Rbrace})
			case *ast.IfStmt:
				n := &ast.IfStmt{If: y.If, Init: y.Init, Cond: y.Cond, Body: &ast.BlockStmt{Lbrace: y.Body.Lbrace, List: rewrite(y.Body.List, nested), Rbrace: y.Body.Rbrace}, Else: y.Else}
				if y.Else != nil {
					r := rewrite([]ast.Stmt{y.Else}, nested)
					if len(r) == 1 {
						n.Else = r[0]
					}
				}
				out = append(out, n)
			case *ast.ForStmt, *ast.RangeStmt, *ast.SwitchStmt, *ast.TypeSwitchStmt, *ast.SelectStmt, *ast.LabeledStmt:
				// a return in here would need a labelled break: give up if there is one
				ast.Inspect(y, func(m ast.Node) bool {
					switch m.(type) {
					case *ast.FuncLit:
						return false
					case *ast.ReturnStmt:
						okAll = false
					}
					return true
				})
				out = append(out, s)
			default:
				out = append(out, s)
			}
		}
		return out
	}
	body := rewrite(lit.Body.List, false)
	if !okAll {
		return nil
	}
	// the literal's trailing `return true` became a trailing continue: harmless
	return &ast.RangeStmt{For: x.Pos(), Key: ids[0], Value: ids[1], TokPos: x.Pos(), Tok: token.DEFINE, Range: x.Pos(), X: sel,
		Body: &ast.BlockStmt{Lbrace: lit.Body.Lbrace, List: body, Rbrace: lit.Body.Rbrace}}
}

func (fl *flattener) generalOK(h *Func) bool {
	return fl.p.OpaqueGeneral == nil || !fl.p.OpaqueGeneral(h)
}

func (fl *flattener) usable(h *Func) bool {
	return h != nil && (fl.dry || fl.count[h] == 1)
}

func (fl *flattener) stmt(s ast.Stmt) ([]ast.Stmt, bool) {
	switch x := s.(type) {
	case *ast.ReturnStmt:
		if fl.ret != nil {
			if fl.dry {
				return nil, false
			}
			var out []ast.Stmt
			if len(fl.ret.lhs) > 0 && len(x.Results) > 0 {
				out = append(out, &ast.AssignStmt{Lhs: fl.ret.lhs, TokPos: x.Pos(), Tok: fl.ret.tok, Rhs: x.Results})
			} else {
				for _, e := range x.Results {
					out = append(out, &ast.ExprStmt{X: e})
				}
			}
			out = append(out, &ast.BranchStmt{TokPos: x.Pos(), Tok: token.BREAK, Label: fl.ret.label})
			return out, true
		}
		if len(x.Results) == 1 {
			if c, ok := ast.Unparen(x.Results[0]).(*ast.CallExpr); ok {
				if h := fl.helperOf(c); fl.usable(h) {
					rets := ownReturns(h)
					// the helper must end in a return (or never fall off its end)
					if len(rets) > 0 && len(h.Body.List) > 0 {
						if terminates(h.Body.List[len(h.Body.List)-1]) {
							out := fl.inlineBody(h, c, false)
							return out, !fl.dry
						}
					}
				}
			}
		}
		if e, ch := fl.exprs(x.Results); ch {
			return []ast.Stmt{&ast.ReturnStmt{Return: x.Return, Results: e}}, true
		}
	case *ast.AssignStmt:
		if len(x.Rhs) == 1 {
			if c, ok := ast.Unparen(x.Rhs[0]).(*ast.CallExpr); ok && (x.Tok == token.DEFINE || x.Tok == token.ASSIGN) {
				if h := fl.helperOf(c); fl.usable(h) {
					rets := ownReturns(h)
					if len(rets) == 1 && len(h.Body.List) > 0 && h.Body.List[len(h.Body.List)-1] == ast.Stmt(rets[0]) && len(rets[0].Results) == len(x.Lhs) {
						out := fl.inlineBody(h, c, true)
						if fl.dry {
							return nil, false
						}
						var rhs []ast.Expr
						for _, e := range rets[0].Results {
							if id, ok := ast.Unparen(e).(*ast.Ident); ok {
								if o := fl.info.Uses[id]; o != nil {
									nid := &ast.Ident{Name: id.Name, NamePos: c.Pos()}
									fl.info.Uses[nid] = o
									if tv, ok := fl.info.Types[id]; ok {
										fl.info.Types[nid] = tv
									}
									e = nid
								}
							}
							rhs = append(rhs, e)
						}
						out = append(out, &ast.AssignStmt{Lhs: x.Lhs, TokPos: x.TokPos, Tok: x.Tok, Rhs: rhs})
						return out, true
					}
					if len(rets) > 0 && fl.generalOK(h) {
						out := fl.inlineGeneral(h, c, x.Lhs, x.Tok)
						return out, !fl.dry
					}
				}
			}
		}
		// `x op= h(args)`: the helper's result goes through a synthetic local
		if len(x.Rhs) == 1 && len(x.Lhs) == 1 && x.Tok != token.DEFINE && x.Tok != token.ASSIGN {
			if c, ok := ast.Unparen(x.Rhs[0]).(*ast.CallExpr); ok {
				if h := fl.helperOf(c); fl.usable(h) && fl.generalOK(h) && h.Decl.Type.Results != nil && len(h.Decl.Type.Results.List) == 1 && len(h.Decl.Type.Results.List[0].Names) <= 0 && len(ownReturns(h)) > 0 {
					if fl.dry {
						fl.inlineGeneral(h, c, nil, token.ASSIGN)
						return nil, false
					}
					if tv, ok := fl.info.Types[c]; ok && tv.Type != nil {
						v := types.NewVar(c.Pos(), fl.pkg, "_result_of_"+h.Decl.Name.Name, tv.Type)
						def := &ast.Ident{Name: v.Name(), NamePos: c.Pos()}
						fl.info.Defs[def] = v
						use := &ast.Ident{Name: v.Name(), NamePos: c.Pos()}
						fl.info.Uses[use] = v
						fl.info.Types[use] = types.TypeAndValue{Type: tv.Type}
						pre := fl.inlineGeneral(h, c, []ast.Expr{def}, token.DEFINE)
						return append(pre, &ast.AssignStmt{Lhs: x.Lhs, TokPos: x.TokPos, Tok: x.Tok, Rhs: []ast.Expr{use}}), true
					}
				}
			}
		}
		if e, ch := fl.exprs(x.Rhs); ch {
			return []ast.Stmt{&ast.AssignStmt{Lhs: x.Lhs, TokPos: x.TokPos, Tok: x.Tok, Rhs: e}}, true
		}
	case *ast.ExprStmt:
		if rs := fl.rangeOfCallback(x); rs != nil {
			if fl.dry {
				fl.block(rs.Body)
				return nil, false
			}
			if body, ch := fl.block(rs.Body); ch {
				rs.Body = body
			}
			return []ast.Stmt{rs}, true
		}
		if c, ok := ast.Unparen(x.X).(*ast.CallExpr); ok {
			if h := fl.helperOf(c); fl.usable(h) && h.Decl.Type.Results == nil && len(ownReturns(h)) == 0 {
				out := fl.inlineBody(h, c, false)
				return out, !fl.dry
			}
			if h := fl.helperOf(c); fl.usable(h) && h.Decl.Type.Results == nil && len(ownReturns(h)) > 0 && fl.generalOK(h) {
				out := fl.inlineGeneral(h, c, nil, token.ASSIGN)
				return out, !fl.dry
			}
		}
		if e, ch := fl.expr(x.X); ch {
			return []ast.Stmt{&ast.ExprStmt{X: e}}, true
		}
	case *ast.GoStmt:
		if e, ch := fl.expr(x.Call); ch {
			return []ast.Stmt{&ast.GoStmt{Go: x.Go, Call: e.(*ast.CallExpr)}}, true
		}
	case *ast.DeferStmt:
		if e, ch := fl.expr(x.Call); ch {
			return []ast.Stmt{&ast.DeferStmt{Defer: x.Defer, Call: e.(*ast.CallExpr)}}, true
		}
	case *ast.BlockStmt:
		if b, ch := fl.block(x); ch {
			return []ast.Stmt{b}, true
		}
	case *ast.IfStmt:
		if x.Init == nil {
			// `if h(args) { .. }` / `if !h(args) { .. }` with a one-result helper: the result goes through a
			// synthetic local, the helper's statements come first
			cond := ast.Unparen(x.Cond)
			neg := false
			if u, ok := cond.(*ast.UnaryExpr); ok && u.Op == token.NOT {
				neg, cond = true, ast.Unparen(u.X)
			}
			if c, ok := cond.(*ast.CallExpr); ok {
				if h := fl.helperOf(c); fl.usable(h) && fl.generalOK(h) && h.Decl.Type.Results != nil && len(h.Decl.Type.Results.List) == 1 && len(h.Decl.Type.Results.List[0].Names) == 0 && len(ownReturns(h)) > 0 {
					if fl.dry {
						fl.inlineGeneral(h, c, nil, token.ASSIGN)
					} else if tv, ok := fl.info.Types[c]; ok && tv.Type != nil {
						v := types.NewVar(c.Pos(), fl.pkg, "_result_of_"+h.Decl.Name.Name, tv.Type)
						def := &ast.Ident{Name: v.Name(), NamePos: c.Pos()}
						fl.info.Defs[def] = v
						use := &ast.Ident{Name: v.Name(), NamePos: c.Pos()}
						fl.info.Uses[use] = v
						fl.info.Types[use] = types.TypeAndValue{Type: tv.Type}
						pre := fl.inlineGeneral(h, c, []ast.Expr{def}, token.DEFINE)
						var ncond ast.Expr = use
						if neg {
							ncond = &ast.UnaryExpr{OpPos: x.Cond.Pos(), Op: token.NOT, X: use}
							fl.info.Types[ncond] = types.TypeAndValue{Type: tv.Type}
						}
						nif := &ast.IfStmt{If: x.If, Cond: ncond, Body: x.Body, Else: x.Else}
						rest, ch := fl.stmt(nif)
						if !ch {
							rest = []ast.Stmt{nif}
						}
						return append(pre, rest...), true
					}
				}
			}
		}
		if x.Init != nil {
			// `if v := h(args); cond { .. }`: inline the init statement in front of the if
			if pre, ch := fl.stmt(x.Init); ch {
				rest, _ := fl.stmt(&ast.IfStmt{If: x.If, Cond: x.Cond, Body: x.Body, Else: x.Else})
				if rest == nil {
					rest = []ast.Stmt{&ast.IfStmt{If: x.If, Cond: x.Cond, Body: x.Body, Else: x.Else}}
				}
				return append(pre, rest...), true
			}
		}
		body, c1 := fl.block(x.Body)
		var els ast.Stmt = x.Else
		c2 := false
		if x.Else != nil {
			if r, ch := fl.stmt(x.Else); ch {
				c2 = true
				if len(r) == 1 {
					els = r[0]
				} else {
					els = &ast.BlockStmt{Lbrace: x.Else.Pos(), List: r, Rbrace: x.Else.End()}
				}
			}
		}
		if c1 || c2 {
			return []ast.Stmt{&ast.IfStmt{If: x.If, Init: x.Init, Cond: x.Cond, Body: body, Else: els}}, true
		}
	case *ast.ForStmt:
		if body, ch := fl.block(x.Body); ch {
			return []ast.Stmt{&ast.ForStmt{For: x.For, Init: x.Init, Cond: x.Cond, Post: x.Post, Body: body}}, true
		}
	case *ast.RangeStmt:
		if body, ch := fl.block(x.Body); ch {
			return []ast.Stmt{&ast.RangeStmt{For: x.For, Key: x.Key, Value: x.Value, TokPos: x.TokPos, Tok: x.Tok, Range: x.Range, X: x.X, Body: body}}, true
		}
	case *ast.SwitchStmt:
		if body, ch := fl.block(x.Body); ch {
			return []ast.Stmt{&ast.SwitchStmt{Switch: x.Switch, Init: x.Init, Tag: x.Tag, Body: body}}, true
		}
	case *ast.TypeSwitchStmt:
		if body, ch := fl.block(x.Body); ch {
			return []ast.Stmt{&ast.TypeSwitchStmt{Switch: x.Switch, Init: x.Init, Assign: x.Assign, Body: body}}, true
		}
	case *ast.SelectStmt:
		if body, ch := fl.block(x.Body); ch {
			return []ast.Stmt{&ast.SelectStmt{Select: x.Select, Body: body}}, true
		}
	case *ast.CaseClause:
		if body, ch := fl.stmts(x.Body); ch {
			return []ast.Stmt{&ast.CaseClause{Case: x.Case, List: x.List, Colon: x.Colon, Body: body}}, true
		}
	case *ast.CommClause:
		if body, ch := fl.stmts(x.Body); ch {
			return []ast.Stmt{&ast.CommClause{Case: x.Case, Comm: x.Comm, Colon: x.Colon, Body: body}}, true
		}
	}
	return nil, false
}

func (fl *flattener) exprs(list []ast.Expr) ([]ast.Expr, bool) {
	changed := false
	out := make([]ast.Expr, len(list))
	for i, e := range list {
		ne, ch := fl.expr(e)
		if ch {
			changed = true
			out[i] = ne
		} else {
			out[i] = e
		}
	}
	if !changed {
		return list, false
	}
	return out, true
}

// expr rewrites the bodies of function literals reached through calls and parentheses.
func (fl *flattener) expr(e ast.Expr) (ast.Expr, bool) {
	switch x := e.(type) {
	case *ast.ParenExpr:
		if in, ch := fl.expr(x.X); ch {
			return &ast.ParenExpr{Lparen: x.Lparen, X: in, Rparen: x.Rparen}, true
		}
	case *ast.FuncLit:
		// returns inside a literal belong to the literal
		saved := fl.ret
		fl.ret = nil
		body, ch := fl.block(x.Body)
		fl.ret = saved
		if ch {
			n := &ast.FuncLit{Type: x.Type, Body: body}
			if tv, ok := fl.info.Types[x]; ok {
				fl.info.Types[n] = tv
			}
			return n, true
		}
	case *ast.CallExpr:
		fun, c1 := fl.expr(x.Fun)
		args, c2 := fl.exprs(x.Args)
		if c1 || c2 {
			n := &ast.CallExpr{Fun: x.Fun, Lparen: x.Lparen, Args: args, Ellipsis: x.Ellipsis, Rparen: x.Rparen}
			if c1 {
				n.Fun = fun
			}
			if tv, ok := fl.info.Types[x]; ok {
				fl.info.Types[n] = tv
			}
			return n, true
		}
	}
	return e, false
}

// terminates: control never flows past the statement: a return, a panic, or a compound statement all of whose ways
// out are such (an if with else, a switch with a default clause; no break is looked for inside - a helper with labels
// or gotos is not inlined at all, and an unlabelled break inside a switch clause ends that clause only, which is
// checked by requiring the clause's LAST statement to terminate).
func terminates(s ast.Stmt) bool {
	switch x := s.(type) {
	case *ast.ReturnStmt:
		return true
	case *ast.ExprStmt:
		if c, ok := x.X.(*ast.CallExpr); ok {
			if id, ok := ast.Unparen(c.Fun).(*ast.Ident); ok && id.Name == "panic" {
				return true
			}
		}
	case *ast.BlockStmt:
		return len(x.List) > 0 && terminates(x.List[len(x.List)-1])
	case *ast.IfStmt:
		if x.Else == nil {
			return false
		}
		return terminates(x.Body) && terminates(x.Else)
	case *ast.SwitchStmt:
		return clausesTerminate(x.Body)
	case *ast.TypeSwitchStmt:
		return clausesTerminate(x.Body)
	}
	return false
}

func clausesTerminate(b *ast.BlockStmt) bool {
	hasDefault := false
	for _, c := range b.List {
		cc, ok := c.(*ast.CaseClause)
		if !ok {
			return false
		}
		if cc.List == nil {
			hasDefault = true
		}
		if len(cc.Body) == 0 || !terminates(cc.Body[len(cc.Body)-1]) {
			return false
		}
		// a break anywhere inside the clause leaves the switch
		brk := false
		ast.Inspect(cc, func(n ast.Node) bool {
			switch y := n.(type) {
			case *ast.FuncLit, *ast.ForStmt, *ast.RangeStmt, *ast.SwitchStmt, *ast.TypeSwitchStmt, *ast.SelectStmt:
				if n != ast.Node(cc) {
					return false
				}
			case *ast.BranchStmt:
				if y.Tok == token.BREAK {
					brk = true
				}
			}
			return true
		})
		if brk {
			return false
		}
	}
	return hasDefault
}

// methodLikeDecl: for a method-like function (see MethodLikeFunc) a copy of its declaration in which the object
// parameter is the receiver; nil otherwise.
func methodLikeDecl(f *Func) *ast.FuncDecl {
	if f.Decl == nil || f.Decl.Recv != nil || f.Obj() == nil {
		return nil
	}
	k := MethodLikeFunc(f.Pkg.Types, f.Obj())
	if k < 0 {
		return nil
	}
	// locate the k-th parameter name
	var recvField *ast.Field
	var rest []*ast.Field
	i := 0
	for _, fld := range f.Decl.Type.Params.List {
		if len(fld.Names) == 0 {
			return nil
		}
		var keep []*ast.Ident
		for _, nme := range fld.Names {
			if i == k {
				recvField = &ast.Field{Names: []*ast.Ident{nme}, Type: fld.Type}
			} else {
				keep = append(keep, nme)
			}
			i++
		}
		if len(keep) == len(fld.Names) {
			rest = append(rest, fld)
		} else if len(keep) > 0 {
			rest = append(rest, &ast.Field{Doc: fld.Doc, Names: keep, Type: fld.Type, Tag: fld.Tag, Comment: fld.Comment})
		}
	}
	if recvField == nil {
		return nil
	}
	t := &ast.FuncType{Func: f.Decl.Type.Func, TypeParams: f.Decl.Type.TypeParams, Params: &ast.FieldList{List: rest}, Results: f.Decl.Type.Results}
	return &ast.FuncDecl{Doc: f.Decl.Doc, Recv: &ast.FieldList{List: []*ast.Field{recvField}}, Name: f.Decl.Name, Type: t, Body: f.Decl.Body}
}
