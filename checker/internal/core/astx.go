package core

import (
	"go/ast"
	"go/constant"
	"go/token"
	"go/types"
	"strings"
)

// Calls lists the call expressions inside n in source order. Function
// literals are not entered when skipLits is set.
func Calls(n ast.Node, skipLits bool) []*ast.CallExpr {
	var out []*ast.CallExpr
	if n == nil {
		return nil
	}
	ast.Inspect(n, func(m ast.Node) bool {
		if _, ok := m.(*ast.FuncLit); ok && skipLits && m != n {
			return false
		}
		if c, ok := m.(*ast.CallExpr); ok {
			out = append(out, c)
		}
		return true
	})
	return out
}

// CallsTo lists calls inside n whose resolved callee has one of the names.
func CallsTo(info *types.Info, n ast.Node, skipLits bool, names ...string) []*ast.CallExpr {
	var out []*ast.CallExpr
	for _, c := range Calls(n, skipLits) {
		cn := CalleeName(info, c)
		for _, name := range names {
			if cn == name {
				out = append(out, c)
				break
			}
		}
	}
	return out
}

// AsCall returns e as a call to the named function.
func AsCall(info *types.Info, e ast.Expr, names ...string) *ast.CallExpr {
	c, ok := ast.Unparen(e).(*ast.CallExpr)
	if !ok {
		return nil
	}
	cn := CalleeName(info, c)
	for _, n := range names {
		if cn == n {
			return c
		}
	}
	return nil
}

// ConstString returns the constant string value of e.
func ConstString(info *types.Info, e ast.Expr) (string, bool) {
	tv, ok := info.Types[e]
	if !ok || tv.Value == nil || tv.Value.Kind() != constant.String {
		return "", false
	}
	return constant.StringVal(tv.Value), true
}

func ConstInt(info *types.Info, e ast.Expr) (int64, bool) {
	tv, ok := info.Types[e]
	if !ok || tv.Value == nil {
		return 0, false
	}
	if tv.Value.Kind() != constant.Int {
		return 0, false
	}
	v, exact := constant.Int64Val(tv.Value)
	return v, exact
}

// VarOf returns the variable an identifier expression denotes.
func VarOf(info *types.Info, e ast.Expr) *types.Var {
	id, ok := ast.Unparen(e).(*ast.Ident)
	if !ok {
		return nil
	}
	v, _ := info.ObjectOf(id).(*types.Var)
	return v
}

// Mentions reports whether e refers to obj.
func Mentions(info *types.Info, e ast.Node, obj types.Object) bool {
	if e == nil || obj == nil {
		return false
	}
	found := false
	ast.Inspect(e, func(n ast.Node) bool {
		if id, ok := n.(*ast.Ident); ok && info.ObjectOf(id) == obj {
			found = true
		}
		return !found
	})
	return found
}

// MentionsAny reports whether e refers to one of the objects.
func MentionsAny(info *types.Info, e ast.Node, objs map[types.Object]bool) bool {
	if e == nil {
		return false
	}
	found := false
	ast.Inspect(e, func(n ast.Node) bool {
		if id, ok := n.(*ast.Ident); ok && objs[info.ObjectOf(id)] {
			found = true
		}
		return !found
	})
	return found
}

// Def is one definition of a local variable.
type Def struct {
	Rhs   ast.Expr // nil for declarations without value, range clauses, params
	Index int      // result index when Rhs is a multi-value call, else -1
	Stmt  ast.Node
	Kind  string // "assign", "define", "var", "range-key", "range-value", "incdec", "typeswitch"
}

// DefsOf lists every definition of variable v inside body (function literals
// included: a closure may assign a captured variable).
func DefsOf(info *types.Info, body ast.Node, v *types.Var) []Def {
	var out []Def
	ast.Inspect(body, func(n ast.Node) bool {
		switch x := n.(type) {
		case *ast.AssignStmt:
			for i, l := range x.Lhs {
				id, ok := ast.Unparen(l).(*ast.Ident)
				if !ok || info.ObjectOf(id) != v {
					continue
				}
				kind := "assign"
				if x.Tok == token.DEFINE {
					kind = "define"
				} else if x.Tok != token.ASSIGN {
					kind = "opassign"
				}
				if len(x.Rhs) == len(x.Lhs) {
					out = append(out, Def{Rhs: x.Rhs[i], Index: -1, Stmt: x, Kind: kind})
				} else if len(x.Rhs) == 1 {
					out = append(out, Def{Rhs: x.Rhs[0], Index: i, Stmt: x, Kind: kind})
				}
			}
		case *ast.ValueSpec:
			for i, id := range x.Names {
				if info.ObjectOf(id) != v {
					continue
				}
				if len(x.Values) == len(x.Names) {
					out = append(out, Def{Rhs: x.Values[i], Index: -1, Stmt: x, Kind: "var"})
				} else if len(x.Values) == 1 {
					out = append(out, Def{Rhs: x.Values[0], Index: i, Stmt: x, Kind: "var"})
				} else {
					out = append(out, Def{Index: -1, Stmt: x, Kind: "var"})
				}
			}
		case *ast.RangeStmt:
			if id, ok := x.Key.(*ast.Ident); ok && info.ObjectOf(id) == v {
				out = append(out, Def{Rhs: x.X, Index: 0, Stmt: x, Kind: "range-key"})
			}
			if id, ok := x.Value.(*ast.Ident); ok && info.ObjectOf(id) == v {
				out = append(out, Def{Rhs: x.X, Index: 1, Stmt: x, Kind: "range-value"})
			}
		case *ast.IncDecStmt:
			if id, ok := ast.Unparen(x.X).(*ast.Ident); ok && info.ObjectOf(id) == v {
				out = append(out, Def{Index: -1, Stmt: x, Kind: "incdec"})
			}
		}
		return true
	})
	return out
}

// SingleDef returns the only definition of v in body, if there is exactly one
// with a value.
func SingleDef(info *types.Info, body ast.Node, v *types.Var) (Def, bool) {
	defs := DefsOf(info, body, v)
	if len(defs) == 1 && defs[0].Rhs != nil {
		// a variable declared outside the body (a parameter, receiver or named result) has an
		// implicit definition at entry: its one assignment in the body is not its only definition.
		// (The synthetic `param := arg` of a flattened view is a defining occurrence and does count.)
		if (v.Pos() < body.Pos() || v.Pos() > body.End()) && defs[0].Kind != "define" {
			return Def{}, false
		}
		return defs[0], true
	}
	return Def{}, false
}

// Resolve follows single-definition local variables (and parentheses) to the
// defining expression. It stops at anything else. Index reports which result
// of a multi-value call the value is (-1: the value itself).
func Resolve(info *types.Info, body ast.Node, e ast.Expr) (ast.Expr, int) {
	idx := -1
	for i := 0; i < 16; i++ {
		e = ast.Unparen(e)
		id, ok := e.(*ast.Ident)
		if !ok {
			return e, idx
		}
		v, ok := info.ObjectOf(id).(*types.Var)
		if !ok || v.IsField() {
			return e, idx
		}
		d, ok := SingleDef(info, body, v)
		if !ok || (d.Kind != "define" && d.Kind != "var" && d.Kind != "assign") {
			return e, idx
		}
		if d.Index >= 0 {
			if idx >= 0 {
				return e, idx
			}
			idx = d.Index
		}
		e = d.Rhs
	}
	return e, idx
}

// ExprStr renders an expression compactly for obligation keys.
func ExprStr(e ast.Node) string {
	if e == nil {
		return "<nil>"
	}
	if x, ok := e.(ast.Expr); ok {
		s := types.ExprString(x)
		s = strings.Join(strings.Fields(s), " ")
		if len(s) > 90 {
			s = s[:87] + "..."
		}
		return s
	}
	switch x := e.(type) {
	case *ast.AssignStmt:
		var l, r []string
		for _, a := range x.Lhs {
			l = append(l, ExprStr(a))
		}
		for _, a := range x.Rhs {
			r = append(r, ExprStr(a))
		}
		return strings.Join(l, ", ") + " " + x.Tok.String() + " " + strings.Join(r, ", ")
	case *ast.ExprStmt:
		return ExprStr(x.X)
	case *ast.ReturnStmt:
		var r []string
		for _, a := range x.Results {
			r = append(r, ExprStr(a))
		}
		return "return " + strings.Join(r, ", ")
	case *ast.IncDecStmt:
		return ExprStr(x.X) + x.Tok.String()
	case *ast.DeferStmt:
		return "defer " + ExprStr(x.Call)
	case *ast.GoStmt:
		return "go " + ExprStr(x.Call)
	case *ast.BranchStmt:
		return x.Tok.String()
	}
	return "<stmt>"
}

// SameRef reports whether two expressions are the same access path: equal
// shape, identifiers denoting the same objects, equal constants.
func SameRef(info *types.Info, a, b ast.Expr) bool {
	a, b = ast.Unparen(a), ast.Unparen(b)
	switch x := a.(type) {
	case *ast.Ident:
		y, ok := b.(*ast.Ident)
		if !ok {
			return false
		}
		ox, oy := info.ObjectOf(x), info.ObjectOf(y)
		if ox == nil || oy == nil {
			return x.Name == y.Name
		}
		return ox == oy
	case *ast.SelectorExpr:
		y, ok := b.(*ast.SelectorExpr)
		return ok && x.Sel.Name == y.Sel.Name && info.ObjectOf(x.Sel) == info.ObjectOf(y.Sel) && SameRef(info, x.X, y.X)
	case *ast.CallExpr:
		y, ok := b.(*ast.CallExpr)
		if !ok || len(x.Args) != len(y.Args) || !SameRef(info, x.Fun, y.Fun) {
			return false
		}
		for i := range x.Args {
			if !SameRef(info, x.Args[i], y.Args[i]) {
				return false
			}
		}
		return true
	case *ast.BasicLit:
		y, ok := b.(*ast.BasicLit)
		return ok && x.Kind == y.Kind && x.Value == y.Value
	case *ast.IndexExpr:
		y, ok := b.(*ast.IndexExpr)
		return ok && SameRef(info, x.X, y.X) && SameRef(info, x.Index, y.Index)
	case *ast.StarExpr:
		y, ok := b.(*ast.StarExpr)
		return ok && SameRef(info, x.X, y.X)
	case *ast.UnaryExpr:
		y, ok := b.(*ast.UnaryExpr)
		return ok && x.Op == y.Op && SameRef(info, x.X, y.X)
	case *ast.BinaryExpr:
		y, ok := b.(*ast.BinaryExpr)
		return ok && x.Op == y.Op && SameRef(info, x.X, y.X) && SameRef(info, x.Y, y.Y)
	}
	return false
}

// FieldOf returns the struct field a selector expression denotes.
func FieldOf(info *types.Info, e ast.Expr) *types.Var {
	sel, ok := ast.Unparen(e).(*ast.SelectorExpr)
	if !ok {
		return nil
	}
	if s, ok := info.Selections[sel]; ok && s.Kind() == types.FieldVal {
		if v, ok := s.Obj().(*types.Var); ok {
			return v
		}
	}
	return nil
}

// NamedTypeName returns "pkgpath.Name" of a (pointer to) named type.
func NamedTypeName(t types.Type) string {
	t = types.Unalias(t)
	if p, ok := t.(*types.Pointer); ok {
		t = types.Unalias(p.Elem())
	}
	if n, ok := t.(*types.Named); ok {
		if n.Obj().Pkg() == nil {
			return n.Obj().Name()
		}
		return n.Obj().Pkg().Path() + "." + n.Obj().Name()
	}
	return ""
}

// EnclosingStmts returns the chain of AST nodes from root down to target.
// SynthOf: nodes a rule synthesised to show a construct in its canonical spelling (an if-chain as a switch), with the
// source node they stand for.
var SynthOf = map[ast.Node]ast.Node{}

func PathTo(root ast.Node, target ast.Node) []ast.Node {
	if orig, isSynth := SynthOf[target]; isSynth {
		if pth := PathTo(root, orig); pth != nil {
			return append(pth, target)
		}
		return nil
	}
	var path []ast.Node
	var found []ast.Node
	ast.Inspect(root, func(n ast.Node) bool {
		if found != nil {
			return false
		}
		if n == nil {
			path = path[:len(path)-1]
			return false
		}
		path = append(path, n)
		if n == target {
			found = append([]ast.Node(nil), path...)
			return false
		}
		return true
	})
	return found
}

// CanonVar follows single-definition copies `v := w` (w a plain variable) to
// the variable the value was first bound to: aliases of one map or pointer
// introduced by parameter passing in a flattened view compare equal.
func CanonVar(info *types.Info, body ast.Node, v *types.Var) *types.Var {
	for i := 0; i < 8 && v != nil && !v.IsField(); i++ {
		d, ok := SingleDef(info, body, v)
		if !ok || d.Index >= 0 || (d.Kind != "define" && d.Kind != "var" && d.Kind != "assign") {
			return v
		}
		id, ok := ast.Unparen(d.Rhs).(*ast.Ident)
		if !ok {
			return v
		}
		w, ok := info.ObjectOf(id).(*types.Var)
		if !ok || w.IsField() || w == v {
			return v
		}
		// the source must itself never be re-assigned, or the copy is a snapshot of one of its values
		if ds := DefsOf(info, body, w); len(ds) > 1 {
			return v
		}
		v = w
	}
	return v
}

// CanonVarOf: CanonVar of the variable an expression names (nil if it names none).
func CanonVarOf(info *types.Info, body ast.Node, e ast.Expr) *types.Var {
	v := VarOf(info, e)
	if v == nil {
		return nil
	}
	return CanonVar(info, body, v)
}

// DeclaredIn reports whether the variable is declared (has its defining identifier) inside the
// given subtree. Unlike a comparison of source positions it is also right for flattened views,
// where the locals of an inlined helper lie elsewhere in the file.
func DeclaredIn(info *types.Info, root ast.Node, v *types.Var) bool {
	if root == nil || v == nil {
		return false
	}
	// fast path: position inside the subtree's own range and not a synthetic view
	found := false
	ast.Inspect(root, func(n ast.Node) bool {
		if found {
			return false
		}
		if id, ok := n.(*ast.Ident); ok && info.Defs[id] == types.Object(v) {
			found = true
		}
		return !found
	})
	if found {
		return true
	}
	// implicit objects (type-switch bindings) are declared by their clause
	ast.Inspect(root, func(n ast.Node) bool {
		if found {
			return false
		}
		if cc, ok := n.(*ast.CaseClause); ok && info.Implicits[cc] == types.Object(v) {
			found = true
		}
		return !found
	})
	return found
}
