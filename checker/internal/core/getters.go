package core

import (
	"go/ast"
	"go/token"
	"go/types"
)

// inlineGetters shows, in a view, calls of one-line unexported helpers as the expression they return:
//
//	func (ff *genfile) buf() *bytes.Buffer { return ff.body }      ff.buf().Len()   is shown as   ff.body.Len()
//	func (f *File) hasData() bool { return f.Data != nil }          if f.hasData()   is shown as   if f.Data != nil
//
// The helper (same package, unexported, not opaque) must consist of a single `return E` with E free of effects (field
// selections, identifiers, literals, comparisons and boolean / arithmetic operators, len/cap, index and dereference),
// and the receiver and arguments of the call must be plain (identifiers, field selections, literals), so that putting
// them in place of the parameters neither duplicates nor reorders an effect. Only the statements whose own expressions
// contain such a call are re-created (their expressions as copies carrying the originals' type information, nested
// blocks kept or rewritten in turn); function literals are left alone.
func (p *Program) inlineGetters(info *types.Info, pkg *types.Package, body *ast.BlockStmt) (*ast.BlockStmt, bool) {
	g := &getterInliner{p: p, info: info, pkg: pkg}
	return g.block(body)
}

type getterInliner struct {
	p    *Program
	info *types.Info
	pkg  *types.Package
	// selSubst: replacement for a field selection of the function being shown (a parameter object's field as the
	// parameter it stands for), nil when there is none
	selSubst func(*ast.SelectorExpr) ast.Expr
}

func pureGetterExpr(info *types.Info, e ast.Expr) bool {
	ok := true
	ast.Inspect(e, func(n ast.Node) bool {
		switch x := n.(type) {
		case nil, *ast.Ident, *ast.BasicLit, *ast.ParenExpr, *ast.SelectorExpr, *ast.BinaryExpr, *ast.IndexExpr, *ast.StarExpr:
		case *ast.UnaryExpr:
			if x.Op == token.AND || x.Op == token.ARROW {
				ok = false
			}
		case *ast.CallExpr:
			id, isID := ast.Unparen(x.Fun).(*ast.Ident)
			if !isID {
				ok = false
				break
			}
			if b, isB := info.ObjectOf(id).(*types.Builtin); !isB || (b.Name() != "len" && b.Name() != "cap") {
				ok = false
			}
		default:
			ok = false
		}
		return ok
	})
	return ok
}

func plainOperand(info *types.Info, e ast.Expr) bool {
	for {
		switch x := ast.Unparen(e).(type) {
		case *ast.Ident:
			return true
		case *ast.BasicLit:
			return true
		case *ast.SelectorExpr:
			if _, isField := info.Selections[x]; !isField {
				_, isPkg := info.ObjectOf(identOfExpr(x.X)).(*types.PkgName)
				return isPkg
			}
			e = x.X
		default:
			return false
		}
	}
}

func identOfExpr(e ast.Expr) *ast.Ident {
	id, _ := ast.Unparen(e).(*ast.Ident)
	return id
}

// getter: the helper a call invokes, with its returned expression, when it qualifies.
func (g *getterInliner) getter(c *ast.CallExpr) (*Func, ast.Expr) {
	fn := CalleeFunc(g.info, c)
	if fn == nil || fn.Pkg() != g.pkg || fn.Exported() {
		return nil, nil
	}
	h := g.p.FuncOfObj(fn)
	if h == nil || h.Decl == nil || h.Body == nil || len(h.Body.List) != 1 || (g.p.Opaque != nil && g.p.Opaque(h)) {
		return nil, nil
	}
	if h.Decl.Type.TypeParams != nil {
		return nil, nil
	}
	ret, ok := h.Body.List[0].(*ast.ReturnStmt)
	if !ok || len(ret.Results) != 1 || !pureGetterExpr(g.info, ret.Results[0]) {
		return nil, nil
	}
	sig, _ := fn.Type().(*types.Signature)
	if sig == nil || sig.Variadic() || sig.Params().Len() != len(c.Args) {
		return nil, nil
	}
	for _, a := range c.Args {
		if !plainOperand(g.info, a) {
			return nil, nil
		}
	}
	if sig.Recv() != nil {
		sel, isSel := ast.Unparen(c.Fun).(*ast.SelectorExpr)
		if !isSel || !plainOperand(g.info, sel.X) {
			return nil, nil
		}
		// a value receiver reached through a pointer (or the reverse) changes nothing for a pure read
	}
	return h, ret.Results[0]
}

func (g *getterInliner) wants(e ast.Expr) bool {
	found := false
	ast.Inspect(e, func(n ast.Node) bool {
		if _, isLit := n.(*ast.FuncLit); isLit {
			return false
		}
		if c, ok := n.(*ast.CallExpr); ok {
			if h, _ := g.getter(c); h != nil {
				found = true
			}
			if _, k := MethodLike(g.info, g.pkg, c); k >= 0 {
				found = true
			}
			if callee := g.p.FuncOfObj(CalleeFunc(g.info, c)); callee != nil && callee.Pkg.Types == g.pkg && len(g.p.paramObjects(callee)) > 0 {
				found = true
			}
		}
		if sel, ok := n.(*ast.SelectorExpr); ok && g.selSubst != nil && g.selSubst(sel) != nil {
			found = true
		}
		return !found
	})
	return found
}

// MethodLikeFunc: an unexported package-level function that is a method in all but spelling: exactly one of its
// parameters is a pointer to a struct type of the same package (the object the function works on). It answers the index of that parameter, or -1.
func MethodLikeFunc(pkg *types.Package, fn *types.Func) int {
	if fn == nil || fn.Pkg() != pkg || fn.Exported() {
		return -1
	}
	sig, _ := fn.Type().(*types.Signature)
	if sig == nil || sig.Recv() != nil || sig.TypeParams() != nil {
		return -1
	}
	k := -1
	for i := 0; i < sig.Params().Len(); i++ {
		pt, ok := sig.Params().At(i).Type().(*types.Pointer)
		if !ok {
			continue
		}
		nt, ok := types.Unalias(pt.Elem()).(*types.Named)
		if !ok || nt.Obj().Pkg() != pkg {
			continue
		}
		if _, isStruct := nt.Underlying().(*types.Struct); !isStruct {
			continue
		}
		if k >= 0 {
			return -1 // two candidates: not clear whose method it would be
		}
		k = i
	}
	if k >= 0 && sig.Variadic() && k == sig.Params().Len()-1 {
		return -1
	}
	return k
}

// MethodLike: the call invokes a method-like function by its plain name; it answers the function and the index of the
// object argument.
func MethodLike(info *types.Info, pkg *types.Package, c *ast.CallExpr) (*types.Func, int) {
	id, ok := ast.Unparen(c.Fun).(*ast.Ident)
	if !ok {
		return nil, -1
	}
	fn, _ := info.Uses[id].(*types.Func)
	k := MethodLikeFunc(pkg, fn)
	if k < 0 || k >= len(c.Args) || c.Ellipsis.IsValid() {
		return nil, -1
	}
	return fn, k
}

func (g *getterInliner) expr(e ast.Expr) (ast.Expr, bool) {
	if e == nil || !g.wants(e) {
		return e, false
	}
	cl := &cloner{info: g.info}
	cl.subst = func(x ast.Expr) ast.Expr {
		if sel, isSel := x.(*ast.SelectorExpr); isSel && g.selSubst != nil {
			if r := g.selSubst(sel); r != nil {
				return r
			}
		}
		c, ok := x.(*ast.CallExpr)
		if !ok {
			return nil
		}
		// a parameter object's literal as the arguments it stands for (then, possibly, the method form)
		if callee := g.p.FuncOfObj(CalleeFunc(g.info, c)); callee != nil && callee.Pkg.Types == g.pkg && !c.Ellipsis.IsValid() {
			if nargs, _, okPO := g.p.paramObjArgs(g.info, callee, c.Args); okPO {
				// the literal's values and the other arguments, rewritten in turn
				nc := &ast.CallExpr{Fun: c.Fun, Lparen: c.Lparen, Rparen: c.Rparen}
				for _, a := range nargs {
					a2, _ := g.expr(a)
					nc.Args = append(nc.Args, a2)
				}
				if tv, has := g.info.Types[c]; has {
					g.info.Types[nc] = tv
				}
				// method-like: the object parameter's index counts in the new argument list
				if fid, isID := ast.Unparen(c.Fun).(*ast.Ident); isID {
					if fn, _ := g.info.Uses[fid].(*types.Func); fn != nil {
						if k := MethodLikeFunc(g.pkg, fn); k >= 0 {
							// index of the k-th original parameter among the expanded ones
							nk, i := 0, 0
							for _, po := range g.p.paramObjects(callee) {
								_ = po
							}
							exp := map[int]int{}
							for _, po := range g.p.paramObjects(callee) {
								exp[po.idx] = po.st.NumFields()
							}
							for i = 0; i < k; i++ {
								if n, is := exp[i]; is {
									nk += n
								} else {
									nk++
								}
							}
							if _, is := exp[k]; !is && nk < len(nc.Args) {
								sel := &ast.Ident{NamePos: fid.NamePos, Name: fid.Name}
								g.info.Uses[sel] = fn
								recv := nc.Args[nk]
								rest := append(append([]ast.Expr{}, nc.Args[:nk]...), nc.Args[nk+1:]...)
								nc.Fun = &ast.SelectorExpr{X: recv, Sel: sel}
								nc.Args = rest
							}
						}
					}
				}
				return nc
			}
		}
		if fn, k := MethodLike(g.info, g.pkg, c); k >= 0 {
			// `f(a, obj, b)` shown as `obj.f(a, b)`
			fid := ast.Unparen(c.Fun).(*ast.Ident)
			sel := &ast.Ident{NamePos: fid.NamePos, Name: fid.Name}
			g.info.Uses[sel] = fn
			sub := func(e ast.Expr) ast.Expr {
				e2, _ := g.expr(e)
				if e2 == e {
					return e // untouched operands keep their identity
				}
				return e2
			}
			nc := &ast.CallExpr{Fun: &ast.SelectorExpr{X: sub(c.Args[k]), Sel: sel}, Lparen: c.Lparen, Rparen: c.Rparen}
			for i, a := range c.Args {
				if i != k {
					nc.Args = append(nc.Args, sub(a))
				}
			}
			if tv, has := g.info.Types[c]; has {
				g.info.Types[nc] = tv
			}
			return nc
		}
		h, body := g.getter(c)
		if h == nil {
			return nil
		}
		// parameters (and the receiver) -> copies of the operands
		bind := map[types.Object]ast.Expr{}
		i := 0
		for _, fld := range h.Decl.Type.Params.List {
			for _, nme := range fld.Names {
				if i < len(c.Args) {
					bind[g.info.ObjectOf(nme)] = c.Args[i]
				}
				i++
			}
			if len(fld.Names) == 0 {
				i++
			}
		}
		if h.Decl.Recv != nil && len(h.Decl.Recv.List) == 1 && len(h.Decl.Recv.List[0].Names) == 1 {
			if sel, isSel := ast.Unparen(c.Fun).(*ast.SelectorExpr); isSel {
				bind[g.info.ObjectOf(h.Decl.Recv.List[0].Names[0])] = sel.X
			}
		}
		inner := &cloner{info: g.info}
		inner.subst = func(y ast.Expr) ast.Expr {
			if id, isID := y.(*ast.Ident); isID {
				if arg, has := bind[g.info.ObjectOf(id)]; has && arg != nil {
					// the operand itself may contain getter calls: rewritten by the outer pass
					a2, _ := g.expr(arg)
					return (&cloner{info: g.info}).expr(a2)
				}
			}
			return nil
		}
		out := inner.expr(body)
		// getters inside the returned expression
		if o2, ch := g.expr(out); ch {
			out = o2
		}
		switch out.(type) {
		case *ast.BinaryExpr, *ast.UnaryExpr, *ast.StarExpr:
			return &ast.ParenExpr{Lparen: c.Pos(), X: out, Rparen: c.End()} // for printing only; the tree is what rules read
		}
		return out
	}
	out := cl.expr(e)
	// parentheses are transparent for every rule (ast.Unparen), but their type is asked for now and then
	ast.Inspect(out, func(n ast.Node) bool {
		if pe, ok := n.(*ast.ParenExpr); ok {
			if _, has := g.info.Types[pe]; !has {
				if tv, hasX := g.info.Types[pe.X]; hasX {
					g.info.Types[pe] = tv
				}
			}
		}
		return true
	})
	return out, true
}

func (g *getterInliner) exprs(list []ast.Expr) ([]ast.Expr, bool) {
	changed := false
	out := make([]ast.Expr, len(list))
	for i, e := range list {
		ne, ch := g.expr(e)
		out[i] = ne
		changed = changed || ch
	}
	if !changed {
		return list, false
	}
	return out, true
}

func (g *getterInliner) block(b *ast.BlockStmt) (*ast.BlockStmt, bool) {
	if b == nil {
		return nil, false
	}
	list, ch := g.list(b.List)
	if !ch {
		return b, false
	}
	return &ast.BlockStmt{Lbrace: b.Lbrace, List: list, Rbrace: b.Rbrace}, true
}

func (g *getterInliner) list(list []ast.Stmt) ([]ast.Stmt, bool) {
	changed := false
	out := make([]ast.Stmt, len(list))
	for i, s := range list {
		ns, ch := g.stmt(s)
		out[i] = ns
		changed = changed || ch
	}
	if !changed {
		out = list
	}
	// a value built field by field, shown as the literal it stands for (see foldFieldwise)
	if folded, fch := foldFieldwise(g.info, out); fch {
		return folded, true
	}
	if !changed {
		return list, false
	}
	return out, true
}

func (g *getterInliner) stmt(s ast.Stmt) (ast.Stmt, bool) {
	switch x := s.(type) {
	case nil:
		return nil, false
	case *ast.BlockStmt:
		return g.block(x)
	case *ast.ExprStmt:
		if e, ch := g.expr(x.X); ch {
			return &ast.ExprStmt{X: e}, true
		}
	case *ast.AssignStmt:
		l, c1 := g.exprs(x.Lhs)
		r, c2 := g.exprs(x.Rhs)
		if c1 || c2 {
			return &ast.AssignStmt{Lhs: l, TokPos: x.TokPos, Tok: x.Tok, Rhs: r}, true
		}
	case *ast.ReturnStmt:
		if r, ch := g.exprs(x.Results); ch {
			return &ast.ReturnStmt{Return: x.Return, Results: r}, true
		}
	case *ast.IfStmt:
		init, c0 := g.stmt(x.Init)
		cond, c1 := g.expr(x.Cond)
		body, c2 := g.block(x.Body)
		els, c3 := g.stmt(x.Else)
		if c0 || c1 || c2 || c3 {
			return &ast.IfStmt{If: x.If, Init: init, Cond: cond, Body: body, Else: els}, true
		}
	case *ast.ForStmt:
		init, c0 := g.stmt(x.Init)
		cond, c1 := g.expr(x.Cond)
		post, c2 := g.stmt(x.Post)
		body, c3 := g.block(x.Body)
		if c0 || c1 || c2 || c3 {
			return &ast.ForStmt{For: x.For, Init: init, Cond: cond, Post: post, Body: body}, true
		}
	case *ast.RangeStmt:
		xx, c1 := g.expr(x.X)
		body, c2 := g.block(x.Body)
		if c1 || c2 {
			return &ast.RangeStmt{For: x.For, Key: x.Key, Value: x.Value, TokPos: x.TokPos, Tok: x.Tok, Range: x.Range, X: xx, Body: body}, true
		}
	case *ast.SwitchStmt:
		init, c0 := g.stmt(x.Init)
		tag, c1 := g.expr(x.Tag)
		body, c2 := g.clauses(x.Body)
		if c0 || c1 || c2 {
			return &ast.SwitchStmt{Switch: x.Switch, Init: init, Tag: tag, Body: body}, true
		}
	case *ast.TypeSwitchStmt:
		body, c2 := g.clauses(x.Body)
		if c2 {
			return &ast.TypeSwitchStmt{Switch: x.Switch, Init: x.Init, Assign: x.Assign, Body: body}, true
		}
	case *ast.DeferStmt, *ast.GoStmt, *ast.LabeledStmt, *ast.SelectStmt:
		return s, false
	}
	return s, false
}

func (g *getterInliner) clauses(b *ast.BlockStmt) (*ast.BlockStmt, bool) {
	changed := false
	out := make([]ast.Stmt, len(b.List))
	for i, s := range b.List {
		out[i] = s
		cc, ok := s.(*ast.CaseClause)
		if !ok {
			continue
		}
		l, c1 := g.exprs(cc.List)
		body, c2 := g.list(cc.Body)
		if c1 || c2 {
			ncc := &ast.CaseClause{Case: cc.Case, List: l, Colon: cc.Colon, Body: body}
			if obj, has := g.info.Implicits[cc]; has {
				g.info.Implicits[ncc] = obj
			}
			if sc, has := g.info.Scopes[cc]; has {
				g.info.Scopes[ncc] = sc
			}
			out[i] = ncc
			changed = true
		}
	}
	if !changed {
		return b, false
	}
	return &ast.BlockStmt{Lbrace: b.Lbrace, List: out, Rbrace: b.Rbrace}, true
}
