package core

import (
	"go/ast"
	"go/token"
	"go/types"
)

// rangeLoops rewrites, in a view, hand-written element loops into the `for i, x := range xs` they stand for, so that
// rules written against range loops keep seeing their constructs:
//
//	for i := 0; i < len(xs); i++ { … xs[i] … }            (also `for i, n := 0, len(xs); i < n; i++`; xs a local or parameter)
//	for len(xs) > 0 { x := xs[0]; xs = xs[1:]; … }         a work list consumed from the front, xs dead afterwards
//	for rest := xs; len(rest) > 0; rest = rest[1:] { … rest[0] … }
//	for len(s) > 0 { r, size := utf8.DecodeRuneInString(s); s = s[size:]; … }   (s a string, dead afterwards)
//
// Conditions (checked syntactically, conservative): the sequence variable and the index are not assigned in the body
// (beyond the consuming statements), no element is stored into, the element expression is not needed inside a function
// literal, and for the consuming forms the sequence variable is a local that is not mentioned after the loop. Statement
// lists of function literals are left alone. The element reads are replaced by uses of one new variable (registered in
// the package's types.Info); all other nodes are copies that carry the originals' type information.
func rangeLoops(info *types.Info, pkg *types.Package, fnBody *ast.BlockStmt, body *ast.BlockStmt) (*ast.BlockStmt, bool) {
	n := &loopNorm{info: info, pkg: pkg, fnBody: fnBody}
	return n.block(body)
}

type loopNorm struct {
	info   *types.Info
	pkg    *types.Package
	fnBody *ast.BlockStmt
}

func (n *loopNorm) block(b *ast.BlockStmt) (*ast.BlockStmt, bool) {
	if b == nil {
		return nil, false
	}
	list, ch := n.list(b.List)
	if !ch {
		return b, false
	}
	return &ast.BlockStmt{Lbrace: b.Lbrace, List: list, Rbrace: b.Rbrace}, true
}

func (n *loopNorm) list(list []ast.Stmt) ([]ast.Stmt, bool) {
	changed := false
	out := make([]ast.Stmt, len(list))
	for i, s := range list {
		ns, ch := n.stmt(s, list[i+1:])
		out[i] = ns
		changed = changed || ch
	}
	if !changed {
		return list, false
	}
	return out, true
}

func (n *loopNorm) stmt(s ast.Stmt, after []ast.Stmt) (ast.Stmt, bool) {
	switch x := s.(type) {
	case *ast.BlockStmt:
		return n.block(x)
	case *ast.IfStmt:
		nb, c1 := n.block(x.Body)
		var ne ast.Stmt = x.Else
		c2 := false
		if x.Else != nil {
			ne, c2 = n.stmt(x.Else, nil)
		}
		if c1 || c2 {
			return &ast.IfStmt{If: x.If, Init: x.Init, Cond: x.Cond, Body: nb, Else: ne}, true
		}
	case *ast.SwitchStmt:
		if nb, ch := n.clauses(x.Body); ch {
			return &ast.SwitchStmt{Switch: x.Switch, Init: x.Init, Tag: x.Tag, Body: nb}, true
		}
	case *ast.TypeSwitchStmt:
		if nb, ch := n.clauses(x.Body); ch {
			return &ast.TypeSwitchStmt{Switch: x.Switch, Init: x.Init, Assign: x.Assign, Body: nb}, true
		}
	case *ast.RangeStmt:
		if nb, ch := n.block(x.Body); ch {
			return &ast.RangeStmt{For: x.For, Key: x.Key, Value: x.Value, TokPos: x.TokPos, Tok: x.Tok, Range: x.Range, X: x.X, Body: nb}, true
		}
	case *ast.LabeledStmt:
		return s, false
	case *ast.ForStmt:
		if r := n.forLoop(x, after); r != nil {
			// inner loops of the rewritten body
			if nb, ch := n.block(r.Body); ch {
				r.Body = nb
			}
			return r, true
		}
		if nb, ch := n.block(x.Body); ch {
			return &ast.ForStmt{For: x.For, Init: x.Init, Cond: x.Cond, Post: x.Post, Body: nb}, true
		}
	}
	return s, false
}

func (n *loopNorm) clauses(b *ast.BlockStmt) (*ast.BlockStmt, bool) {
	changed := false
	out := make([]ast.Stmt, len(b.List))
	for i, s := range b.List {
		out[i] = s
		if cc, ok := s.(*ast.CaseClause); ok {
			if nl, ch := n.list(cc.Body); ch {
				ncc := &ast.CaseClause{Case: cc.Case, List: cc.List, Colon: cc.Colon, Body: nl}
				if obj, has := n.info.Implicits[cc]; has {
					n.info.Implicits[ncc] = obj
				}
				if sc, has := n.info.Scopes[cc]; has {
					n.info.Scopes[ncc] = sc
				}
				out[i] = ncc
				changed = true
			}
		}
	}
	if !changed {
		return b, false
	}
	return &ast.BlockStmt{Lbrace: b.Lbrace, List: out, Rbrace: b.Rbrace}, true
}

func (n *loopNorm) localVar(e ast.Expr) *types.Var {
	id, ok := ast.Unparen(e).(*ast.Ident)
	if !ok {
		return nil
	}
	v, _ := n.info.ObjectOf(id).(*types.Var)
	if v == nil || v.IsField() || !DeclaredIn(n.info, n.fnBody, v) {
		return nil
	}
	return v
}

func (n *loopNorm) isLenOf(e ast.Expr, same func(ast.Expr) bool) bool {
	c, ok := ast.Unparen(e).(*ast.CallExpr)
	if !ok || len(c.Args) != 1 {
		return false
	}
	id, ok := ast.Unparen(c.Fun).(*ast.Ident)
	if !ok {
		return false
	}
	if b, isB := n.info.ObjectOf(id).(*types.Builtin); !isB || b.Name() != "len" {
		return false
	}
	return same(c.Args[0])
}

func (n *loopNorm) mentions(node ast.Node, v *types.Var) bool {
	found := false
	ast.Inspect(node, func(m ast.Node) bool {
		if id, ok := m.(*ast.Ident); ok && n.info.ObjectOf(id) == types.Object(v) {
			found = true
		}
		return !found
	})
	return found
}

func (n *loopNorm) assigns(node ast.Node, v *types.Var) bool {
	found := false
	ast.Inspect(node, func(m ast.Node) bool {
		switch x := m.(type) {
		case *ast.AssignStmt:
			for _, l := range x.Lhs {
				if id, ok := ast.Unparen(l).(*ast.Ident); ok && n.info.ObjectOf(id) == types.Object(v) {
					found = true
				}
			}
		case *ast.IncDecStmt:
			if id, ok := ast.Unparen(x.X).(*ast.Ident); ok && n.info.ObjectOf(id) == types.Object(v) {
				found = true
			}
		case *ast.UnaryExpr:
			if x.Op == token.AND {
				if id, ok := ast.Unparen(x.X).(*ast.Ident); ok && n.info.ObjectOf(id) == types.Object(v) {
					found = true
				}
			}
		case *ast.RangeStmt:
			for _, kv := range []ast.Expr{x.Key, x.Value} {
				if id, ok := kv.(*ast.Ident); ok && x.Tok == token.ASSIGN && n.info.ObjectOf(id) == types.Object(v) {
					found = true
				}
			}
		}
		return !found
	})
	return found
}

func constIntIs(info *types.Info, e ast.Expr, want int64) bool {
	v, ok := ConstInt(info, e)
	return ok && v == want
}

// elemType of a slice, array or string sequence (rune for strings is handled by the decode form only).
func elemTypeOf(t types.Type) types.Type {
	switch u := t.Underlying().(type) {
	case *types.Slice:
		return u.Elem()
	case *types.Array:
		return u.Elem()
	case *types.Pointer:
		if a, ok := u.Elem().Underlying().(*types.Array); ok {
			return a.Elem()
		}
	}
	return nil
}

func (n *loopNorm) newVar(pos token.Pos, name string, t types.Type) (*ast.Ident, *types.Var) {
	v := types.NewVar(pos, n.pkg, name, t)
	id := &ast.Ident{NamePos: pos, Name: name}
	n.info.Defs[id] = v
	return id, v
}

func (n *loopNorm) use(v *types.Var, pos token.Pos) *ast.Ident {
	id := &ast.Ident{NamePos: pos, Name: v.Name()}
	n.info.Uses[id] = v
	return id
}

// sliceFrom: e is `<v>[<k>:]` with constant k (or, when sizeVar != nil, that variable).
func (n *loopNorm) sliceFrom(e ast.Expr, v *types.Var, k int64, sizeVar *types.Var) bool {
	se, ok := ast.Unparen(e).(*ast.SliceExpr)
	if !ok || se.High != nil || se.Max != nil || se.Low == nil || n.localVar(se.X) != v {
		return false
	}
	if sizeVar != nil {
		id, isID := ast.Unparen(se.Low).(*ast.Ident)
		return isID && n.info.ObjectOf(id) == types.Object(sizeVar)
	}
	return constIntIs(n.info, se.Low, k)
}

func (n *loopNorm) forLoop(x *ast.ForStmt, after []ast.Stmt) *ast.RangeStmt {
	info := n.info
	// ---- index loop: for i := 0; i < len(xs); i++  /  for i, n := 0, len(xs); i < n; i++
	if as, ok := x.Init.(*ast.AssignStmt); ok && as.Tok == token.DEFINE && x.Cond != nil && x.Post != nil {
		inc, isInc := x.Post.(*ast.IncDecStmt)
		cond, isCmp := ast.Unparen(x.Cond).(*ast.BinaryExpr)
		if isInc && inc.Tok == token.INC && isCmp && cond.Op == token.LSS && len(as.Lhs) == len(as.Rhs) && len(as.Lhs) >= 1 && len(as.Lhs) <= 2 {
			iv := n.localVar(as.Lhs[0])
			if iv != nil && constIntIs(info, as.Rhs[0], 0) && n.localVar(inc.X) == iv && n.localVar(cond.X) == iv {
				var seq ast.Expr
				if len(as.Lhs) == 1 {
					if c, isCall := ast.Unparen(cond.Y).(*ast.CallExpr); isCall && len(c.Args) == 1 && n.isLenOf(cond.Y, func(ast.Expr) bool { return true }) {
						seq = c.Args[0]
					}
				} else if nv := n.localVar(as.Lhs[1]); nv != nil && n.localVar(cond.Y) == nv && !n.assigns(x.Body, nv) {
					if c, isCall := ast.Unparen(as.Rhs[1]).(*ast.CallExpr); isCall && len(c.Args) == 1 && n.isLenOf(as.Rhs[1], func(ast.Expr) bool { return true }) {
						seq = c.Args[0]
						if n.mentionsOutsideCond(x.Body, nv) {
							seq = nil
						}
					}
				}
				if seq != nil {
					if r := n.indexToRange(x, iv, seq); r != nil {
						return r
					}
				}
			}
		}
	}
	// ---- for rest := xs; len(rest) > 0; rest = rest[1:]
	if as, ok := x.Init.(*ast.AssignStmt); ok && as.Tok == token.DEFINE && len(as.Lhs) == 1 && len(as.Rhs) == 1 && x.Cond != nil && x.Post != nil {
		rv := n.localVar(as.Lhs[0])
		post, isAs := x.Post.(*ast.AssignStmt)
		if rv != nil && isAs && post.Tok == token.ASSIGN && len(post.Lhs) == 1 && len(post.Rhs) == 1 && n.localVar(post.Lhs[0]) == rv && n.sliceFrom(post.Rhs[0], rv, 1, nil) && n.nonEmptyCond(x.Cond, rv) && !n.assigns(x.Body, rv) {
			et := elemTypeOf(rv.Type())
			if et != nil {
				valID, val := n.newVar(x.For, rv.Name()+"0", et)
				cl := &cloner{info: info}
				bad := false
				cl.subst = func(e ast.Expr) ast.Expr {
					if ix, isIx := e.(*ast.IndexExpr); isIx && n.localVar(ix.X) == rv {
						if constIntIs(info, ix.Index, 0) {
							return n.use(val, ix.Pos())
						}
						bad = true
					}
					return nil
				}
				nb := cl.block(x.Body)
				if !bad && !cl.hitLit && !n.mentions(nb, rv) && !n.storesElem(x.Body, rv) {
					r := &ast.RangeStmt{For: x.For, Key: &ast.Ident{NamePos: x.For, Name: "_"}, Value: valID, TokPos: x.For, Tok: token.DEFINE, Range: x.For, X: as.Rhs[0], Body: nb}
					n.foldElemLocal(r, val)
					return r
				}
			}
		}
	}
	// ---- consuming loops: for len(xs) > 0 { x := xs[0]; xs = xs[1:]; … }  and the rune-decoding form
	var initSeq ast.Expr // `for sv := E; len(sv) > 0; { … }`: the loop owns its sequence variable
	var initVar *types.Var
	if as, ok := x.Init.(*ast.AssignStmt); ok && as.Tok == token.DEFINE && len(as.Lhs) == 1 && len(as.Rhs) == 1 && x.Post == nil {
		initVar = n.localVar(as.Lhs[0])
		initSeq = as.Rhs[0]
	}
	if (x.Init == nil || initVar != nil) && x.Post == nil && x.Cond != nil && len(x.Body.List) >= 2 {
		var sv *types.Var
		ast.Inspect(x.Cond, func(m ast.Node) bool {
			if id, ok := m.(*ast.Ident); ok && sv == nil {
				if v := n.localVar(id); v != nil {
					sv = v
				}
			}
			return true
		})
		if initVar != nil && sv != initVar {
			sv = nil
		}
		seqExpr := func() ast.Expr {
			if initVar != nil {
				return initSeq
			}
			return n.use(sv, x.Cond.Pos())
		}
		if sv != nil && n.nonEmptyCond(x.Cond, sv) {
			first, isAs1 := x.Body.List[0].(*ast.AssignStmt)
			second, isAs2 := x.Body.List[1].(*ast.AssignStmt)
			rest := x.Body.List[2:]
			dead := true
			for _, s := range after {
				if n.mentions(s, sv) {
					dead = false
				}
			}
			// also dead for an enclosing loop: the variable must be defined inside the function and not be mentioned before in a loop that contains this one - approximated by requiring its single other definition to be a plain `sv := <expr>` / the sorted list it was built as
			if isAs1 && isAs2 && dead && first.Tok == token.DEFINE && second.Tok == token.ASSIGN && len(second.Lhs) == 1 && len(second.Rhs) == 1 && n.localVar(second.Lhs[0]) == sv {
				restBlock := &ast.BlockStmt{Lbrace: x.Body.Lbrace, List: rest, Rbrace: x.Body.Rbrace}
				if !n.mentions(restBlock, sv) {
					// element form
					if len(first.Lhs) == 1 && len(first.Rhs) == 1 && n.sliceFrom(second.Rhs[0], sv, 1, nil) {
						if ix, isIx := ast.Unparen(first.Rhs[0]).(*ast.IndexExpr); isIx && n.localVar(ix.X) == sv && constIntIs(info, ix.Index, 0) {
							if ev := n.localVar(first.Lhs[0]); ev != nil && !n.assigns(restBlock, ev) {
								valID := &ast.Ident{NamePos: first.Lhs[0].Pos(), Name: ev.Name()}
								info.Defs[valID] = ev
								return &ast.RangeStmt{For: x.For, Key: &ast.Ident{NamePos: x.For, Name: "_"}, Value: valID, TokPos: x.For, Tok: token.DEFINE, Range: x.For, X: seqExpr(), Body: restBlock}
							}
						}
					}
					// rune-decoding form
					if len(first.Lhs) == 2 && len(first.Rhs) == 1 {
						if c, isCall := ast.Unparen(first.Rhs[0]).(*ast.CallExpr); isCall && len(c.Args) == 1 && n.localVar(c.Args[0]) == sv {
							if fn, _ := calleeObj(info, c).(*types.Func); fn != nil && fn.Pkg() != nil && fn.Pkg().Path() == "unicode/utf8" && fn.Name() == "DecodeRuneInString" {
								rv, zv := n.localVar(first.Lhs[0]), n.localVar(first.Lhs[1])
								if rv != nil && zv != nil && n.sliceFrom(second.Rhs[0], sv, 0, zv) && !n.mentions(restBlock, zv) && !n.assigns(restBlock, rv) {
									valID := &ast.Ident{NamePos: first.Lhs[0].Pos(), Name: rv.Name()}
									info.Defs[valID] = rv
									return &ast.RangeStmt{For: x.For, Key: &ast.Ident{NamePos: x.For, Name: "_"}, Value: valID, TokPos: x.For, Tok: token.DEFINE, Range: x.For, X: seqExpr(), Body: restBlock}
								}
							}
						}
					}
				}
			}
		}
	}
	return nil
}

func calleeObj(info *types.Info, c *ast.CallExpr) types.Object {
	switch f := ast.Unparen(c.Fun).(type) {
	case *ast.Ident:
		return info.ObjectOf(f)
	case *ast.SelectorExpr:
		return info.ObjectOf(f.Sel)
	}
	return nil
}

// nonEmptyCond: `len(v) > 0`, `len(v) != 0`, `len(v) >= 1`, `0 < len(v)`.
func (n *loopNorm) nonEmptyCond(e ast.Expr, v *types.Var) bool {
	b, ok := ast.Unparen(e).(*ast.BinaryExpr)
	if !ok {
		return false
	}
	isLen := func(e ast.Expr) bool { return n.isLenOf(e, func(a ast.Expr) bool { return n.localVar(a) == v }) }
	switch {
	case isLen(b.X) && (b.Op == token.GTR || b.Op == token.NEQ) && constIntIs(n.info, b.Y, 0):
		return true
	case isLen(b.X) && b.Op == token.GEQ && constIntIs(n.info, b.Y, 1):
		return true
	case isLen(b.Y) && (b.Op == token.LSS || b.Op == token.NEQ) && constIntIs(n.info, b.X, 0):
		return true
	}
	return false
}

func (n *loopNorm) mentionsOutsideCond(body ast.Node, v *types.Var) bool { return n.mentions(body, v) }

// storesElem: an element of the sequence held by v is assigned in the body.
func (n *loopNorm) storesElem(body ast.Node, v *types.Var) bool {
	found := false
	ast.Inspect(body, func(m ast.Node) bool {
		if as, ok := m.(*ast.AssignStmt); ok {
			for _, l := range as.Lhs {
				if ix, isIx := ast.Unparen(l).(*ast.IndexExpr); isIx && n.localVar(ix.X) == v {
					found = true
				}
			}
		}
		return !found
	})
	return found
}

// indexToRange: `for i := 0; i < len(seq); i++ { … seq[i] … }` as `for i, seq_i := range seq`.
func (n *loopNorm) indexToRange(x *ast.ForStmt, iv *types.Var, seq ast.Expr) *ast.RangeStmt {
	info := n.info
	t := info.TypeOf(seq)
	if t == nil {
		return nil
	}
	et := elemTypeOf(t)
	if et == nil {
		return nil
	}
	// the sequence: a local variable or parameter that is not assigned in the body. (A field is not accepted: the index
	// loop reads its length anew on every step and a call in the body may append to it - a range loop would not see that.)
	rid, ok := ast.Unparen(seq).(*ast.Ident)
	if !ok {
		return nil
	}
	rootVar, _ := info.ObjectOf(rid).(*types.Var)
	if rootVar == nil || rootVar.IsField() || (rootVar.Pkg() != nil && rootVar.Parent() == rootVar.Pkg().Scope()) || n.assigns(x.Body, rootVar) || n.assigns(x.Body, iv) {
		return nil
	}
	// ... and not captured by a literal of the body (which could append to it)
	captured := false
	ast.Inspect(x.Body, func(m ast.Node) bool {
		if lit, isLit := m.(*ast.FuncLit); isLit {
			if n.mentions(lit.Body, rootVar) {
				captured = true
			}
			return false
		}
		return !captured
	})
	if captured {
		return nil
	}
	seqStr := ExprStr(seq)
	sameSeq := func(e ast.Expr) bool { return ExprStr(ast.Unparen(e)) == seqStr }
	// no store into the sequence (elements, or the field itself), no append to it
	bad := false
	ast.Inspect(x.Body, func(m ast.Node) bool {
		if as, isAs := m.(*ast.AssignStmt); isAs {
			for _, l := range as.Lhs {
				l = ast.Unparen(l)
				if sameSeq(l) {
					bad = true
				}
				if ix, isIx := l.(*ast.IndexExpr); isIx && sameSeq(ix.X) {
					bad = true
				}
			}
		}
		return !bad
	})
	if bad {
		return nil
	}
	name := "elem"
	if id, isID := ast.Unparen(seq).(*ast.Ident); isID {
		name = id.Name + "_i"
	} else if sel, isSel := ast.Unparen(seq).(*ast.SelectorExpr); isSel {
		name = sel.Sel.Name + "_i"
	}
	valID, val := n.newVar(x.For, name, et)
	cl := &cloner{info: info}
	used := false
	cl.subst = func(e ast.Expr) ast.Expr {
		if ix, isIx := e.(*ast.IndexExpr); isIx && sameSeq(ix.X) {
			if id, isID := ast.Unparen(ix.Index).(*ast.Ident); isID && info.ObjectOf(id) == types.Object(iv) {
				used = true
				return n.use(val, ix.Pos())
			}
		}
		return nil
	}
	nb := cl.block(x.Body)
	if cl.hitLit || !used {
		return nil
	}
	keyID := &ast.Ident{NamePos: x.For, Name: iv.Name()}
	info.Defs[keyID] = iv
	r := &ast.RangeStmt{For: x.For, Key: keyID, Value: valID, TokPos: x.For, Tok: token.DEFINE, Range: x.For, X: seq, Body: nb}
	n.foldElemLocal(r, val)
	return r
}

// foldElemLocal: when the (rewritten) body starts with `x := <elem>` - the synthetic element variable copied into a
// local that is never assigned again - and the element is not used otherwise, the local itself is the range value.
func (n *loopNorm) foldElemLocal(r *ast.RangeStmt, val *types.Var) {
	if len(r.Body.List) == 0 {
		return
	}
	as, ok := r.Body.List[0].(*ast.AssignStmt)
	if !ok || as.Tok != token.DEFINE || len(as.Lhs) != 1 || len(as.Rhs) != 1 {
		return
	}
	id, ok := ast.Unparen(as.Rhs[0]).(*ast.Ident)
	if !ok || n.info.ObjectOf(id) != types.Object(val) {
		return
	}
	x := n.localVar(as.Lhs[0])
	if x == nil {
		return
	}
	rest := &ast.BlockStmt{Lbrace: r.Body.Lbrace, List: r.Body.List[1:], Rbrace: r.Body.Rbrace}
	if n.mentions(rest, val) || n.assigns(rest, x) {
		return
	}
	valID := &ast.Ident{NamePos: as.Lhs[0].Pos(), Name: x.Name()}
	n.info.Defs[valID] = x
	r.Value = valID
	r.Body = rest
}
