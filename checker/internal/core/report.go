package core

import (
	"encoding/json"
	"fmt"
	"go/token"
	"os"
	"path/filepath"
	"sort"
	"strings"
)

type Status string

const (
	Discharged Status = "discharged"
	Reviewed   Status = "discharged_by_review"
	Violated   Status = "violated"
	Undecided  Status = "undecided"
	Known      Status = "known-finding"
)

// Obligation is one instance of a rule on one construct of the source.
// Key never contains a line number.
type Obligation struct {
	Rule      string `json:"rule"`
	Func      string `json:"function"`
	Construct string `json:"construct"`
	Pos       string `json:"pos"`
	Status    Status `json:"status"`
	How       string `json:"how"`
}

func (o Obligation) Key() string { return o.Func + " :: " + o.Construct }

type Report struct {
	Prog      *Program
	Property  string
	Obls      []Obligation
	floors    map[string]int
	notes     []string
	funcsSeen map[string]bool
}

func NewReport(p *Program, property string) *Report {
	return &Report{Prog: p, Property: property, floors: map[string]int{}, funcsSeen: map[string]bool{}}
}

func (r *Report) add(rule string, fn string, construct string, pos token.Pos, st Status, how string) {
	if !strings.HasPrefix(rule, r.Property+".") {
		rule = r.Property + "." + rule
	}
	r.funcsSeen[fn] = true
	ps := "-"
	if r.Prog != nil {
		ps = r.Prog.Pos(pos)
	}
	r.Obls = append(r.Obls, Obligation{Rule: rule, Func: fn, Construct: construct, Pos: ps, Status: st, How: how})
}

func fname(f *Func) string {
	if f == nil {
		return "<program>"
	}
	return f.QName()
}

func (r *Report) OK(rule string, f *Func, construct string, pos token.Pos, how string) {
	r.add(rule, fname(f), construct, pos, Discharged, how)
}

func (r *Report) ReviewedOK(rule string, f *Func, construct string, pos token.Pos, reason string) {
	r.add(rule, fname(f), construct, pos, Reviewed, reason)
}

func (r *Report) Bad(rule string, f *Func, construct string, pos token.Pos, why string) {
	r.add(rule, fname(f), construct, pos, Violated, why)
}

func (r *Report) Unknown(rule string, f *Func, construct string, pos token.Pos, why string) {
	r.add(rule, fname(f), construct, pos, Undecided, why)
}

// Check is OK when cond holds and Bad otherwise.
func (r *Report) Check(cond bool, rule string, f *Func, construct string, pos token.Pos, okHow, badWhy string) bool {
	if cond {
		r.OK(rule, f, construct, pos, okHow)
	} else {
		r.Bad(rule, f, construct, pos, badWhy)
	}
	return cond
}

// Anchor reports an unresolved anchor: the rule cannot see its construct.
func (r *Report) Anchor(rule string, what string) {
	r.add(rule, "<program>", "anchor: "+what, token.NoPos, Undecided, "anchor could not be resolved in the current source; the rule cannot see its construct")
}

// Floor demands at least n obligations of the rule (a rule matching fewer
// sites than were confirmed by reading passes vacuously otherwise).
func (r *Report) Floor(rule string, n int) {
	if !strings.HasPrefix(rule, r.Property+".") {
		rule = r.Property + "." + rule
	}
	r.floors[rule] = n
}

func (r *Report) Note(format string, a ...any) { r.notes = append(r.notes, fmt.Sprintf(format, a...)) }

// KnownFinding is an entry of /verif/known_findings.json.
type KnownFinding struct {
	Property  string `json:"property"`
	Rule      string `json:"rule"`
	Key       string `json:"key"`
	WhatFails string `json:"what_fails"`
	Status    string `json:"status"` // "open" or "fixed: property=<id> <commit> <what failed>"
}

func LoadKnown(path string) ([]KnownFinding, error) {
	data, err := os.ReadFile(path)
	if err != nil {
		if os.IsNotExist(err) {
			return nil, nil
		}
		return nil, err
	}
	var out struct {
		Findings []KnownFinding `json:"findings"`
	}
	if err := json.Unmarshal(data, &out); err != nil {
		return nil, err
	}
	return out.Findings, nil
}

type Outcome struct {
	Violations []Obligation
	KnownHits  []struct {
		O Obligation
		K KnownFinding
	}
	FloorFailures []string
	Counts        map[Status]int
	RuleCounts    map[string]int
}

// Finish applies floors and the known-findings list.
func (r *Report) Finish(known []KnownFinding) *Outcome {
	out := &Outcome{Counts: map[Status]int{}, RuleCounts: map[string]int{}}
	for i := range r.Obls {
		o := &r.Obls[i]
		if o.Status == Violated || o.Status == Undecided {
			for _, k := range known {
				if k.Status == "open" && k.Property == r.Property && k.Rule == o.Rule && k.Key == o.Key() {
					o.Status = Known
					out.KnownHits = append(out.KnownHits, struct {
						O Obligation
						K KnownFinding
					}{*o, k})
					break
				}
			}
		}
		out.Counts[o.Status]++
		out.RuleCounts[o.Rule]++
		if o.Status == Violated || o.Status == Undecided {
			out.Violations = append(out.Violations, *o)
		}
	}
	rules := make([]string, 0, len(r.floors))
	for rule := range r.floors {
		rules = append(rules, rule)
	}
	sort.Strings(rules)
	for _, rule := range rules {
		if out.RuleCounts[rule] < r.floors[rule] {
			msg := fmt.Sprintf("%s matched %d instance(s), floor is %d: the rule no longer sees the constructs confirmed by reading", rule, out.RuleCounts[rule], r.floors[rule])
			out.FloorFailures = append(out.FloorFailures, msg)
			out.Violations = append(out.Violations, Obligation{Rule: rule, Func: "<program>", Construct: "instance floor", Pos: "-", Status: Undecided, How: msg})
		}
	}
	return out
}

// Evidence is the JSON written to /verif/evidence/<id>.json.
type Evidence struct {
	PropertyID  string         `json:"property_id"`
	Tier        string         `json:"tier"`
	Seed        int            `json:"seed"`
	Level       string         `json:"level"`
	Coverage    map[string]any `json:"coverage"`
	Assumptions []string       `json:"assumptions"`
	WallS       float64        `json:"wall_s"`
	Violations  int            `json:"violations"`
}

func (r *Report) Evidence(out *Outcome, tier string, seed int, wall float64, explanation string, assumptions []string, extra map[string]any) *Evidence {
	distinct := map[string]bool{}
	for _, o := range r.Obls {
		distinct[o.Rule+"|"+o.Key()] = true
	}
	var samples []Obligation
	// violated and known first, then a spread of discharged ones per rule
	for _, o := range r.Obls {
		if o.Status != Discharged && o.Status != Reviewed {
			samples = append(samples, o)
		}
	}
	perRule := map[string]int{}
	for _, o := range r.Obls {
		if (o.Status == Discharged || o.Status == Reviewed) && perRule[o.Rule] < 3 {
			perRule[o.Rule]++
			samples = append(samples, o)
		}
	}
	if len(samples) > 60 {
		samples = samples[:60]
	}
	rules := map[string]int{}
	for k, v := range out.RuleCounts {
		rules[k] = v
	}
	fns := make([]string, 0, len(r.funcsSeen))
	for f := range r.funcsSeen {
		fns = append(fns, f)
	}
	sort.Strings(fns)
	cov := map[string]any{
		"explanation":          explanation,
		"obligations":          len(r.Obls),
		"discharged":           out.Counts[Discharged] + out.Counts[Reviewed],
		"discharged_by_review": out.Counts[Reviewed],
		"known":                out.Counts[Known],
		"violated":             len(out.Violations),
		"evaluations":          len(r.Obls),
		"distinct_nontrivial":  len(distinct),
		"rule":                 "one obligation per (rule, function, construct) found in the current source of /repo by resolving callees, fields and constants through go/types; distinct = distinct (rule, function, construct) keys; all are non-trivial in the sense that each matched a real construct of the analysed tree",
		"samples":              samples,
		"obligations_per_rule": rules,
		"floors":               r.floors,
		"floor_failures":       out.FloorFailures,
		"functions_touched":    fns,
		"packages_analysed":    len(r.Prog.InScope()),
		"functions_analysed":   len(r.Prog.Funcs()),
		"checker_cmd":          "bin/gengolint -prop " + r.Property + " -tier " + tier,
		"trusted_base": []string{
			"go/parser, go/types (go1.26.8) and golang.org/x/tools v0.50.0 go/packages, go/cfg",
			"the rule implementations under /verif/checker/internal/rules",
			"documented behaviour of the standard library and third-party callees named in the rules",
		},
		"notes": r.notes,
		"canonical_names": map[string]any{
			"rule":    "unexported anchors are located by role (internal/core/anchors.go); one that carries another name in the tree is analysed under the name the rules use (renaming overlay, re-type-checked)",
			"renamed": r.Prog.CanonNotes,
		},
	}
	for k, v := range extra {
		cov[k] = v
	}
	return &Evidence{
		PropertyID:  r.Property,
		Tier:        tier,
		Seed:        seed,
		Level:       "other",
		Coverage:    cov,
		Assumptions: assumptions,
		WallS:       wall,
		Violations:  len(out.Violations),
	}
}

func WriteJSON(path string, v any) error {
	if err := os.MkdirAll(filepath.Dir(path), 0o755); err != nil {
		return err
	}
	data, err := json.MarshalIndent(v, "", " ")
	if err != nil {
		return err
	}
	tmp := path + ".tmp"
	if err := os.WriteFile(tmp, append(data, '\n'), 0o644); err != nil {
		return err
	}
	return os.Rename(tmp, path)
}
