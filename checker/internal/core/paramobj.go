package core

import (
	"go/ast"
	"go/token"
	"go/types"
)

// Parameter objects. `func f(a A, opt fOpts)` with `type fOpts struct{ x X; y Y }` called as `f(a, fOpts{x: …, y: …})` is
// `func f(a A, x X, y Y)` called as `f(a, …, …)` in all but spelling. Views show it that way, so that rules written
// against parameters and argument positions keep seeing them:
//
//   - the function is unexported, declared in the package, the parameter's type is an unexported struct type of the same
//     package passed by value;
//   - inside the function the parameter is only read, field by field (`opt.x`; never assigned, never passed on whole,
//     its address never taken);
//   - every call of the function in the program passes a composite literal of the struct for it.
//
// The fields become parameters (new variables registered in types.Info, one per field, in field order); a field a keyed
// literal leaves out is passed as its zero value.
type paramObj struct {
	v      *types.Var // the parameter
	idx    int        // its index in the signature
	st     *types.Struct
	fields []*types.Var // one new parameter variable per field
}

func (p *Program) paramObjects(f *Func) []paramObj {
	if p.pobjs == nil {
		p.pobjs = map[*Func][]paramObj{}
	}
	if po, ok := p.pobjs[f]; ok {
		return po
	}
	p.pobjs[f] = nil
	if f.Decl == nil || f.Body == nil || f.Obj() == nil || f.Obj().Exported() || f.Decl.Type.TypeParams != nil {
		return nil
	}
	info := f.Info()
	sig, _ := f.Obj().Type().(*types.Signature)
	if sig == nil || sig.Variadic() {
		return nil
	}
	var out []paramObj
	i := 0
	for _, fld := range f.Decl.Type.Params.List {
		for _, nme := range fld.Names {
			idx := i
			i++
			v, _ := info.ObjectOf(nme).(*types.Var)
			if v == nil {
				continue
			}
			nt, ok := types.Unalias(v.Type()).(*types.Named)
			if !ok || nt.Obj().Pkg() != f.Pkg.Types || nt.Obj().Exported() || nt.NumMethods() != 0 {
				continue
			}
			st, ok := nt.Underlying().(*types.Struct)
			if !ok || st.NumFields() == 0 {
				continue
			}
			// only read field by field
			okUse := true
			var stack []ast.Node
			ast.Inspect(f.Body, func(n ast.Node) bool {
				if n == nil {
					stack = stack[:len(stack)-1]
					return true
				}
				stack = append(stack, n)
				id, isID := n.(*ast.Ident)
				if !isID || info.ObjectOf(id) != types.Object(v) {
					return true
				}
				if len(stack) < 2 {
					okUse = false
					return true
				}
				sel, isSel := stack[len(stack)-2].(*ast.SelectorExpr)
				if !isSel || sel.X != ast.Expr(id) {
					okUse = false
					return true
				}
				if _, isField := info.Selections[sel]; !isField {
					okUse = false
				}
				// not written, address not taken
				if len(stack) >= 3 {
					switch par := stack[len(stack)-3].(type) {
					case *ast.AssignStmt:
						for _, l := range par.Lhs {
							if l == ast.Expr(sel) {
								okUse = false
							}
						}
					case *ast.IncDecStmt:
						okUse = false
					case *ast.UnaryExpr:
						if par.Op == token.AND {
							okUse = false
						}
					}
				}
				return true
			})
			if !okUse {
				continue
			}
			out = append(out, paramObj{v: v, idx: idx, st: st})
		}
		if len(fld.Names) == 0 {
			i++
		}
	}
	if len(out) == 0 {
		return nil
	}
	// every call passes a literal
	calls := 0
	for _, g := range p.Funcs() {
		if g.Pkg != f.Pkg || g.Body == nil {
			continue
		}
		ginfo := g.Info()
		bad := false
		ast.Inspect(g.Body, func(n ast.Node) bool {
			if lit, isLit := n.(*ast.FuncLit); isLit && lit != g.Lit {
				return false
			}
			switch x := n.(type) {
			case *ast.CallExpr:
				if CalleeFunc(ginfo, x) != f.Obj() {
					return true
				}
				calls++
				for _, po := range out {
					if po.idx >= len(x.Args) {
						bad = true
						continue
					}
					if _, isLit := ast.Unparen(x.Args[po.idx]).(*ast.CompositeLit); !isLit {
						bad = true
					}
				}
			case *ast.Ident:
				// the function used as a value
				if ginfo.Uses[x] == types.Object(f.Obj()) {
					// call position is checked through the CallExpr case; any other use is a value use
				}
			}
			return true
		})
		if bad {
			return nil
		}
	}
	if calls == 0 {
		return nil
	}
	for k := range out {
		for j := 0; j < out[k].st.NumFields(); j++ {
			fv := out[k].st.Field(j)
			out[k].fields = append(out[k].fields, types.NewVar(out[k].v.Pos(), f.Pkg.Types, out[k].v.Name()+"_"+fv.Name(), fv.Type()))
		}
	}
	p.pobjs[f] = out
	return out
}

// paramObjArgs: the arguments of a call with the literals of parameter objects replaced by their fields' values.
func (p *Program) paramObjArgs(info *types.Info, callee *Func, args []ast.Expr) ([]ast.Expr, map[int][2]int, bool) {
	pos := p.paramObjects(callee)
	if len(pos) == 0 {
		return args, nil, false
	}
	byIdx := map[int]paramObj{}
	for _, po := range pos {
		byIdx[po.idx] = po
	}
	var out []ast.Expr
	for i, a := range args {
		po, is := byIdx[i]
		if !is {
			out = append(out, a)
			continue
		}
		cl, ok := ast.Unparen(a).(*ast.CompositeLit)
		if !ok {
			return args, nil, false
		}
		for j := 0; j < po.st.NumFields(); j++ {
			name := po.st.Field(j).Name()
			var val ast.Expr
			for k, el := range cl.Elts {
				if kv, isKV := el.(*ast.KeyValueExpr); isKV {
					if id, isID := kv.Key.(*ast.Ident); isID && id.Name == name {
						val = kv.Value
					}
				} else if k == j {
					val = el
				}
			}
			if val == nil {
				val = zeroExpr(info, po.st.Field(j).Type(), cl.Pos())
				if val == nil {
					return args, nil, false
				}
			}
			out = append(out, val)
		}
	}
	return out, nil, true
}

// paramObjDecl: the declaration with the parameter objects' fields as parameters, and the substitution for the body.
func (p *Program) paramObjDecl(f *Func, decl *ast.FuncDecl) (*ast.FuncDecl, func(*ast.SelectorExpr) ast.Expr) {
	pos := p.paramObjects(f)
	if len(pos) == 0 {
		return nil, nil
	}
	info := f.Info()
	byVar := map[types.Object]paramObj{}
	for _, po := range pos {
		byVar[po.v] = po
	}
	var list []*ast.Field
	for _, fld := range decl.Type.Params.List {
		var keep []*ast.Ident
		flush := func() {
			if len(keep) > 0 {
				list = append(list, &ast.Field{Names: keep, Type: fld.Type})
				keep = nil
			}
		}
		for _, nme := range fld.Names {
			po, is := byVar[info.ObjectOf(nme)]
			if !is {
				keep = append(keep, nme)
				continue
			}
			flush()
			for _, fv := range po.fields {
				id := &ast.Ident{NamePos: nme.NamePos, Name: fv.Name()}
				info.Defs[id] = fv
				tid := &ast.Ident{NamePos: nme.NamePos, Name: types.TypeString(fv.Type(), nil)}
				info.Types[tid] = types.TypeAndValue{Type: fv.Type()}
				list = append(list, &ast.Field{Names: []*ast.Ident{id}, Type: tid})
			}
		}
		flush()
	}
	t := &ast.FuncType{Func: decl.Type.Func, TypeParams: decl.Type.TypeParams, Params: &ast.FieldList{List: list}, Results: decl.Type.Results}
	nd := &ast.FuncDecl{Doc: decl.Doc, Recv: decl.Recv, Name: decl.Name, Type: t, Body: decl.Body}
	subst := func(sel *ast.SelectorExpr) ast.Expr {
		id, ok := ast.Unparen(sel.X).(*ast.Ident)
		if !ok {
			return nil
		}
		po, is := byVar[info.ObjectOf(id)]
		if !is {
			return nil
		}
		for j := 0; j < po.st.NumFields(); j++ {
			if po.st.Field(j).Name() == sel.Sel.Name {
				use := &ast.Ident{NamePos: sel.Pos(), Name: po.fields[j].Name()}
				info.Uses[use] = po.fields[j]
				return use
			}
		}
		return nil
	}
	return nd, subst
}

// closureParamObjects does for a local closure what paramObjects does for a declared function: `collect :=
// func(site commentSite) { … site.group … }` called as `collect(commentSite{group: g, …})` is shown as `collect := func(group
// …, …) { … }` called as `collect(g, …)`. The closure variable must be defined once by the literal and only ever be
// called, each time with a literal of the struct; the parameter only read field by field. Because the calls sit inside
// other literals the whole body is copied (literals included; the view then has literals of its own).
func closureParamObjects(info *types.Info, pkg *types.Package, body *ast.BlockStmt) (*ast.BlockStmt, bool) {
	type cand struct {
		x      *types.Var // the closure variable
		lit    *ast.FuncLit
		q      *types.Var // the parameter object
		qIdx   int
		st     *types.Struct
		fields []*types.Var
	}
	var cands []*cand
	ast.Inspect(body, func(n ast.Node) bool {
		as, ok := n.(*ast.AssignStmt)
		if !ok || as.Tok != token.DEFINE || len(as.Lhs) != 1 || len(as.Rhs) != 1 {
			return true
		}
		lit, isLit := ast.Unparen(as.Rhs[0]).(*ast.FuncLit)
		id, isID := as.Lhs[0].(*ast.Ident)
		if !isLit || !isID {
			return true
		}
		x, _ := info.Defs[id].(*types.Var)
		if x == nil {
			return true
		}
		i := 0
		for _, fld := range lit.Type.Params.List {
			for _, nme := range fld.Names {
				idx := i
				i++
				q, _ := info.ObjectOf(nme).(*types.Var)
				if q == nil {
					continue
				}
				nt, ok := types.Unalias(q.Type()).(*types.Named)
				if !ok || nt.Obj().Pkg() != pkg || nt.Obj().Exported() || nt.NumMethods() != 0 {
					continue
				}
				st, ok := nt.Underlying().(*types.Struct)
				if !ok || st.NumFields() == 0 {
					continue
				}
				cands = append(cands, &cand{x: x, lit: lit, q: q, qIdx: idx, st: st})
			}
			if len(fld.Names) == 0 {
				i++
			}
		}
		return true
	})
	var good []*cand
	for _, c := range cands {
		ok := true
		// q: only read field by field inside the literal
		var stack []ast.Node
		ast.Inspect(c.lit.Body, func(n ast.Node) bool {
			if n == nil {
				stack = stack[:len(stack)-1]
				return true
			}
			stack = append(stack, n)
			id, isID := n.(*ast.Ident)
			if !isID || info.ObjectOf(id) != types.Object(c.q) {
				return true
			}
			if len(stack) < 2 {
				ok = false
				return true
			}
			sel, isSel := stack[len(stack)-2].(*ast.SelectorExpr)
			if !isSel || sel.X != ast.Expr(id) {
				ok = false
				return true
			}
			if len(stack) >= 3 {
				switch par := stack[len(stack)-3].(type) {
				case *ast.AssignStmt:
					for _, l := range par.Lhs {
						if l == ast.Expr(sel) {
							ok = false
						}
					}
				case *ast.IncDecStmt:
					ok = false
				case *ast.UnaryExpr:
					if par.Op == token.AND {
						ok = false
					}
				}
			}
			return true
		})
		// x: defined once, only called, with a literal
		uses := 0
		stack = nil
		ast.Inspect(body, func(n ast.Node) bool {
			if n == nil {
				stack = stack[:len(stack)-1]
				return true
			}
			stack = append(stack, n)
			id, isID := n.(*ast.Ident)
			if !isID || info.Uses[id] != types.Object(c.x) {
				return true
			}
			uses++
			call, isCall := stack[len(stack)-2].(*ast.CallExpr)
			if !isCall || call.Fun != ast.Expr(id) || c.qIdx >= len(call.Args) || call.Ellipsis.IsValid() {
				ok = false
				return true
			}
			if _, isLit := ast.Unparen(call.Args[c.qIdx]).(*ast.CompositeLit); !isLit {
				ok = false
			}
			return true
		})
		if ok && uses > 0 {
			for j := 0; j < c.st.NumFields(); j++ {
				fv := c.st.Field(j)
				c.fields = append(c.fields, types.NewVar(c.q.Pos(), pkg, c.q.Name()+"_"+fv.Name(), fv.Type()))
			}
			good = append(good, c)
		}
	}
	if len(good) == 0 {
		return body, false
	}
	byQ := map[types.Object]*cand{}
	byX := map[types.Object]*cand{}
	for _, c := range good {
		byQ[c.q] = c
		byX[c.x] = c
	}
	cl := &cloner{info: info, lits: true, made: map[ast.Node]ast.Node{}}
	failed := false
	cl.subst = func(e ast.Expr) ast.Expr {
		switch x := e.(type) {
		case *ast.SelectorExpr:
			if id, ok := ast.Unparen(x.X).(*ast.Ident); ok {
				if c, is := byQ[info.ObjectOf(id)]; is {
					for j := 0; j < c.st.NumFields(); j++ {
						if c.st.Field(j).Name() == x.Sel.Name {
							use := &ast.Ident{NamePos: x.Pos(), Name: c.fields[j].Name()}
							info.Uses[use] = c.fields[j]
							return use
						}
					}
				}
			}
		case *ast.CallExpr:
			id, ok := x.Fun.(*ast.Ident)
			if !ok {
				return nil
			}
			c, is := byX[info.Uses[id]]
			if !is {
				return nil
			}
			nc := &ast.CallExpr{Fun: cl.expr(x.Fun), Lparen: x.Lparen, Rparen: x.Rparen}
			for i, a := range x.Args {
				if i != c.qIdx {
					nc.Args = append(nc.Args, cl.expr(a))
					continue
				}
				lit := ast.Unparen(a).(*ast.CompositeLit)
				for j := 0; j < c.st.NumFields(); j++ {
					name := c.st.Field(j).Name()
					var val ast.Expr
					for k, el := range lit.Elts {
						if kv, isKV := el.(*ast.KeyValueExpr); isKV {
							if kid, isID := kv.Key.(*ast.Ident); isID && kid.Name == name {
								val = kv.Value
							}
						} else if k == j {
							val = el
						}
					}
					if val == nil {
						val = zeroExpr(info, c.st.Field(j).Type(), lit.Pos())
						if val == nil {
							failed = true
							return nil
						}
						nc.Args = append(nc.Args, val)
						continue
					}
					nc.Args = append(nc.Args, cl.expr(val))
				}
			}
			if tv, has := info.Types[x]; has {
				info.Types[nc] = tv
			}
			return nc
		}
		return nil
	}
	nb := cl.block(body)
	if failed {
		return body, false
	}
	// the literals' parameter lists
	for _, c := range good {
		nl, _ := cl.made[c.lit].(*ast.FuncLit)
		if nl == nil {
			return body, false
		}
		var list []*ast.Field
		for _, fld := range nl.Type.Params.List {
			var keep []*ast.Ident
			flush := func() {
				if len(keep) > 0 {
					list = append(list, &ast.Field{Names: keep, Type: fld.Type})
					keep = nil
				}
			}
			for _, nme := range fld.Names {
				if info.ObjectOf(nme) != types.Object(c.q) {
					keep = append(keep, nme)
					continue
				}
				flush()
				for _, fv := range c.fields {
					fid := &ast.Ident{NamePos: nme.NamePos, Name: fv.Name()}
					info.Defs[fid] = fv
					tid := &ast.Ident{NamePos: nme.NamePos, Name: types.TypeString(fv.Type(), nil)}
					info.Types[tid] = types.TypeAndValue{Type: fv.Type()}
					list = append(list, &ast.Field{Names: []*ast.Ident{fid}, Type: tid})
				}
			}
			flush()
		}
		nl.Type = &ast.FuncType{Func: nl.Type.Func, Params: &ast.FieldList{List: list}, Results: nl.Type.Results}
	}
	return nb, true
}
