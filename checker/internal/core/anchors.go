package core

// Canonical names. A number of rules name an unexported function, method, type, field or local of the repository
// (`newPkg`, `(*pkgInfo).priorCommentLines`, `processed`, `rootPkgPaths` ...). Giving such a thing another name is
// the most common behaviour-preserving edit there is, and it must not make a check report a lost anchor. Instead of
// teaching every rule every role, the program is normalised once, at load time: each named anchor has a *role
// description* that does not mention its name (the type of pkg/gengo that has `WriteToFile`; the only unexported
// function of pkg/types with signature `func(string) (string, string)`; the field of the package record whose type
// is `map[*types.Signature]ast.Node`; the local of `Load` into which `x.Module.Path` is stored ...). When the thing
// that plays a role is called something else than the rules expect, the analysed program is the tree with that
// object renamed back (an overlay in which every identifier the type checker resolves to the object is respelled;
// renaming an unexported object is semantics-preserving whenever the result type-checks, which the reload verifies).
// Lines do not move, so reports keep their file:line. A role nobody plays, or two candidates, leaves the name alone:
// the rules then report the lost anchor as before.

import (
	"fmt"
	"go/ast"
	"go/token"
	"go/types"
	"os"
	"sort"
	"strings"

	"golang.org/x/tools/go/packages"
)

type anchorSpec struct {
	Canon string
	Pkg   string
	What  string // role description, for the evidence
	Find  func(p *Program, pkg *packages.Package) types.Object
}

func qualifierFor(pkg *types.Package) types.Qualifier {
	return func(o *types.Package) string {
		if o == pkg {
			return ""
		}
		return o.Path()
	}
}

// sigKey prints a signature without the names of parameters and results (renaming a parameter must not lose the
// function its role): "(T1, T2, ...T3) (R1, R2)".
func sigKey(t types.Type, pkg *types.Package) string {
	sig, ok := t.(*types.Signature)
	if !ok {
		return ""
	}
	q := qualifierFor(pkg)
	tuple := func(tp *types.Tuple, variadic bool) string {
		var parts []string
		for i := 0; i < tp.Len(); i++ {
			ts := types.TypeString(tp.At(i).Type(), q)
			if variadic && i == tp.Len()-1 {
				if sl, isSl := tp.At(i).Type().(*types.Slice); isSl {
					ts = "..." + types.TypeString(sl.Elem(), q)
				}
			}
			parts = append(parts, ts)
		}
		return "(" + strings.Join(parts, ", ") + ")"
	}
	return tuple(sig.Params(), sig.Variadic()) + " " + tuple(sig.Results(), false)
}

// typeWithMethods: the only non-interface named type declared at package level that declares all the methods named.
func typeWithMethods(methods ...string) func(p *Program, pkg *packages.Package) types.Object {
	return func(p *Program, pkg *packages.Package) types.Object {
		var found types.Object
		sc := pkg.Types.Scope()
		for _, name := range sc.Names() {
			tn, ok := sc.Lookup(name).(*types.TypeName)
			if !ok || tn.IsAlias() {
				continue
			}
			nt, ok := tn.Type().(*types.Named)
			if !ok {
				continue
			}
			if _, isIface := nt.Underlying().(*types.Interface); isIface {
				continue
			}
			have := map[string]bool{}
			for i := 0; i < nt.NumMethods(); i++ {
				have[nt.Method(i).Name()] = true
			}
			all := true
			for _, m := range methods {
				if !have[m] {
					all = false
				}
			}
			if all {
				if found != nil {
					return nil
				}
				found = tn
			}
		}
		return found
	}
}

// typeByUnderlying: the only package-level named type with this underlying type.
func typeByUnderlying(under string) func(p *Program, pkg *packages.Package) types.Object {
	return func(p *Program, pkg *packages.Package) types.Object {
		var found types.Object
		sc := pkg.Types.Scope()
		for _, name := range sc.Names() {
			tn, ok := sc.Lookup(name).(*types.TypeName)
			if !ok || tn.IsAlias() {
				continue
			}
			if types.TypeString(tn.Type().Underlying(), qualifierFor(pkg.Types)) == under {
				if found != nil {
					return nil
				}
				found = tn
			}
		}
		return found
	}
}

// resultTypeOf: the package's own type that every return of the named exported function constructs (`&T{…}`,
// `T{…}`, `T(x)`).
func resultTypeOf(fn string) func(p *Program, pkg *packages.Package) types.Object {
	return func(p *Program, pkg *packages.Package) types.Object {
		var found types.Object
		bad := false
		for _, file := range pkg.Syntax {
			for _, d := range file.Decls {
				fd, ok := d.(*ast.FuncDecl)
				if !ok || fd.Recv != nil || fd.Name.Name != fn || fd.Body == nil {
					continue
				}
				ast.Inspect(fd.Body, func(n ast.Node) bool {
					if _, isLit := n.(*ast.FuncLit); isLit {
						return false
					}
					rs, ok := n.(*ast.ReturnStmt)
					if !ok || len(rs.Results) != 1 {
						return true
					}
					// the static type of what is returned: `&T{…}`, `T(x)`, or a local that holds one
					t := pkg.TypesInfo.TypeOf(rs.Results[0])
					if t == nil {
						return true
					}
					if pt, ok := t.(*types.Pointer); ok {
						t = pt.Elem()
					}
					nt, _ := t.(*types.Named)
					if nt == nil || nt.Obj().Pkg() != pkg.Types {
						return true
					}
					if _, isIface := nt.Underlying().(*types.Interface); isIface {
						return true
					}
					tn := nt.Obj()
					if found != nil && found != tn {
						bad = true
					}
					found = tn
					return true
				})
			}
		}
		if bad {
			return nil
		}
		return found
	}
}

func namedOf(o types.Object) *types.Named {
	if o == nil {
		return nil
	}
	nt, _ := o.Type().(*types.Named)
	return nt
}

func exportedType(name string) func(p *Program, pkg *packages.Package) types.Object {
	return func(p *Program, pkg *packages.Package) types.Object { return pkg.Types.Scope().Lookup(name) }
}

// fieldOf: the nth field (declaration order) of the owner's struct whose type prints as typ.
func fieldOf(owner func(p *Program, pkg *packages.Package) types.Object, typ string, nth int) func(p *Program, pkg *packages.Package) types.Object {
	return func(p *Program, pkg *packages.Package) types.Object {
		nt := namedOf(owner(p, pkg))
		if nt == nil {
			return nil
		}
		st, ok := nt.Underlying().(*types.Struct)
		if !ok {
			return nil
		}
		k := 0
		for i := 0; i < st.NumFields(); i++ {
			f := st.Field(i)
			if f.Embedded() {
				continue
			}
			if types.TypeString(f.Type(), qualifierFor(pkg.Types)) == typ {
				if k == nth {
					return f
				}
				k++
			}
		}
		return nil
	}
}

// funcBySig: the only unexported package-level function with this signature; when callee is not empty, it must also
// be called from a function of that (exported or canonical) name.
func funcBySig(sig string, calledFrom string) func(p *Program, pkg *packages.Package) types.Object {
	return func(p *Program, pkg *packages.Package) types.Object {
		var cands []*types.Func
		sc := pkg.Types.Scope()
		for _, name := range sc.Names() {
			fn, ok := sc.Lookup(name).(*types.Func)
			if !ok || fn.Exported() {
				continue
			}
			if sigKey(fn.Type(), pkg.Types) == sig {
				cands = append(cands, fn)
			}
		}
		if calledFrom != "" && len(cands) > 1 {
			var kept []*types.Func
			for _, c := range cands {
				if calledIn(pkg, calledFrom, c) {
					kept = append(kept, c)
				}
			}
			cands = kept
		}
		if len(cands) == 1 {
			return cands[0]
		}
		return nil
	}
}

func calledIn(pkg *packages.Package, caller string, callee *types.Func) bool {
	hit := false
	for _, file := range pkg.Syntax {
		for _, d := range file.Decls {
			fd, ok := d.(*ast.FuncDecl)
			if !ok || fd.Name.Name != caller || fd.Body == nil {
				continue
			}
			ast.Inspect(fd.Body, func(n ast.Node) bool {
				if id, ok := n.(*ast.Ident); ok && pkg.TypesInfo.Uses[id] == callee {
					hit = true
				}
				return !hit
			})
		}
	}
	return hit
}

// funcReturningPtr: the only unexported package-level function whose single result is a pointer to the owner type.
func funcReturningPtr(owner func(p *Program, pkg *packages.Package) types.Object) func(p *Program, pkg *packages.Package) types.Object {
	return func(p *Program, pkg *packages.Package) types.Object {
		nt := namedOf(owner(p, pkg))
		if nt == nil {
			return nil
		}
		var found types.Object
		sc := pkg.Types.Scope()
		for _, name := range sc.Names() {
			fn, ok := sc.Lookup(name).(*types.Func)
			if !ok || fn.Exported() {
				continue
			}
			sig := fn.Type().(*types.Signature)
			if sig.Results().Len() != 1 {
				continue
			}
			if pt, ok := sig.Results().At(0).Type().(*types.Pointer); ok && types.Identical(pt.Elem(), nt) {
				if found != nil {
					return nil
				}
				found = fn
			}
		}
		return found
	}
}

// methodBySig: the only unexported method of the owner type with this signature (receiver not printed).
func methodBySig(owner func(p *Program, pkg *packages.Package) types.Object, sig string) func(p *Program, pkg *packages.Package) types.Object {
	return func(p *Program, pkg *packages.Package) types.Object {
		nt := namedOf(owner(p, pkg))
		if nt == nil {
			return nil
		}
		var found types.Object
		for i := 0; i < nt.NumMethods(); i++ {
			m := nt.Method(i)
			if m.Exported() {
				continue
			}
			if sigKey(m.Type(), pkg.Types) == sig {
				if found != nil {
					return nil
				}
				found = m
			}
		}
		return found
	}
}

// localOf: a local variable of the named function (its literals included) selected by pick.
func localOf(fn func(p *Program, pkg *packages.Package) types.Object, fnName string, pick func(pkg *packages.Package, body *ast.BlockStmt, v *types.Var) bool) func(p *Program, pkg *packages.Package) types.Object {
	return func(p *Program, pkg *packages.Package) types.Object {
		var target types.Object
		if fn != nil {
			target = fn(p, pkg)
			if target == nil {
				return nil
			}
		}
		var found types.Object
		n := 0
		for _, file := range pkg.Syntax {
			for _, d := range file.Decls {
				fd, ok := d.(*ast.FuncDecl)
				if !ok || fd.Body == nil {
					continue
				}
				if target != nil {
					if pkg.TypesInfo.Defs[fd.Name] != target {
						continue
					}
				} else if fd.Recv != nil || fd.Name.Name != fnName {
					continue
				}
				seen := map[*types.Var]bool{}
				ast.Inspect(fd.Body, func(nd ast.Node) bool {
					id, ok := nd.(*ast.Ident)
					if !ok {
						return true
					}
					v, _ := pkg.TypesInfo.Defs[id].(*types.Var)
					if v == nil || v.IsField() || seen[v] {
						return true
					}
					seen[v] = true
					if pick(pkg, fd.Body, v) {
						n++
						if found == nil {
							found = v
						}
					}
					return true
				})
			}
		}
		if n != 1 {
			return nil
		}
		return found
	}
}

// storedKeySelector: v is a map[string]bool local with a store `v[<expr>.<sel>] = true`.
func storedKeySelector(sel string) func(pkg *packages.Package, body *ast.BlockStmt, v *types.Var) bool {
	return func(pkg *packages.Package, body *ast.BlockStmt, v *types.Var) bool {
		if types.TypeString(v.Type(), nil) != "map[string]bool" {
			return false
		}
		hit := false
		ast.Inspect(body, func(n ast.Node) bool {
			as, ok := n.(*ast.AssignStmt)
			if !ok || len(as.Lhs) != 1 || len(as.Rhs) != 1 {
				return true
			}
			ix, ok := ast.Unparen(as.Lhs[0]).(*ast.IndexExpr)
			if !ok {
				return true
			}
			id, ok := ast.Unparen(ix.X).(*ast.Ident)
			if !ok || pkg.TypesInfo.Uses[id] != v {
				return true
			}
			if tv, ok := pkg.TypesInfo.Types[as.Rhs[0]]; !ok || tv.Value == nil || tv.Value.String() != "true" {
				return true
			}
			if s, ok := ast.Unparen(ix.Index).(*ast.SelectorExpr); ok && s.Sel.Name == sel {
				hit = true
			}
			return true
		})
		return hit
	}
}

// definedAsLiteralOf: v is defined by `v := &T{…}` with T the owner type.
func definedAsLiteralOf(owner func(p *Program, pkg *packages.Package) types.Object, p *Program) func(pkg *packages.Package, body *ast.BlockStmt, v *types.Var) bool {
	return func(pkg *packages.Package, body *ast.BlockStmt, v *types.Var) bool {
		nt := namedOf(owner(p, pkg))
		if nt == nil {
			return false
		}
		hit := false
		ast.Inspect(body, func(n ast.Node) bool {
			as, ok := n.(*ast.AssignStmt)
			if !ok || as.Tok != token.DEFINE || len(as.Lhs) != 1 || len(as.Rhs) != 1 {
				return true
			}
			id, ok := as.Lhs[0].(*ast.Ident)
			if !ok || pkg.TypesInfo.Defs[id] != v {
				return true
			}
			if u, ok := ast.Unparen(as.Rhs[0]).(*ast.UnaryExpr); ok && u.Op == token.AND {
				if cl, ok := ast.Unparen(u.X).(*ast.CompositeLit); ok {
					if t := pkg.TypesInfo.TypeOf(cl); t != nil && types.Identical(t, nt) {
						hit = true
					}
				}
			}
			return true
		})
		return hit
	}
}

var (
	aGenfile      = typeWithMethods("WriteToFile")
	aGengoCtx     = typeWithMethods("Execute", "Defer")
	aLogger       = typeWithMethods("Start", "End", "Warn")
	aSnippetWr    = typeWithMethods("Dumper", "Render")
	aGenType      = typeWithMethods("GenerateType", "Name")
	aPkgInfo      = typeWithMethods("ResultsOf", "MethodsOf", "Doc")
	aResolver     = typeWithMethods("Results")
	aVisits       = typeByUnderlying("map[*go/ast.FuncType][]bool")
	aPrinter      = resultTypeOf("Sprintf")
	aTemplate     = resultTypeOf("T")
	aIdent        = resultTypeOf("ID")
	aFn           = resultTypeOf("Func")
	aRawNamer     = resultTypeOf("NewRawNamer")
	aNewPkg       = funcBySig("(*golang.org/x/tools/go/packages.Package, *Universe) (Package)", "")
	anchorsByRole []anchorSpec
)

func init() {
	anchorsByRole = []anchorSpec{
		// types first: the descriptions of fields and methods go through their owners
		{"partialStructGen", "devpkg/partialstruct", "the type that has GenerateType and Name", aGenType},
		{"runtimedocGen", "devpkg/runtimedocgen", "the type that has GenerateType and Name", aGenType},
		{"deepcopyGen", "devpkg/deepcopygen", "the type that has GenerateType and Name", aGenType},
		{"genfile", "pkg/gengo", "the type that has WriteToFile", aGenfile},
		{"gengoCtx", "pkg/gengo", "the type that has Execute and Defer", aGengoCtx},
		{"logger", "pkg/gengo", "the type that has Start, End and Warn", aLogger},
		{"snippetWriter", "pkg/gengo", "the type that has Dumper and Render", aSnippetWr},
		{"fn", "pkg/gengo/snippet", "the type Func converts to", aFn},
		{"ident", "pkg/gengo/snippet", "the type ID constructs", aIdent},
		{"printer", "pkg/gengo/snippet", "the type Sprintf constructs", aPrinter},
		{"template", "pkg/gengo/snippet", "the type T constructs", aTemplate},
		{"rawNamer", "pkg/namer", "the type NewRawNamer constructs", aRawNamer},
		{"pkgInfo", "pkg/types", "the type that has ResultsOf, MethodsOf and Doc", aPkgInfo},
		{"funcResultsResolver", "pkg/types", "the type that has Results", aResolver},
		{"visits", "pkg/types", "the named map[*ast.FuncType][]bool", aVisits},
		// functions
		{"merge", "pkg/gengo", "the unexported func(...map[string][]string) map[string][]string", funcBySig("(...map[string][]string) (map[string][]string)", "")},
		{"newGenfile", "pkg/gengo", "the unexported function that returns a pointer to the file type", funcReturningPtr(aGenfile)},
		{"commentLinesFrom", "pkg/types", "the unexported func(...*ast.CommentGroup) []string", funcBySig("(...*go/ast.CommentGroup) ([]string)", "")},
		{"newPkg", "pkg/types", "the unexported func(*packages.Package, *Universe) Package", aNewPkg},
		{"splitKV", "pkg/types", "the unexported func(string) (string, string) called from ExtractCommentTags", funcBySig("(string) (string, string)", "ExtractCommentTags")},
		// methods
		{"createFieldSnippet", "devpkg/deepcopygen/helper", "the unexported method of StructFieldsCopy from a field to a snippet", methodBySig(exportedType("StructFieldsCopy"), "(*go/types.Var) (github.com/octohelm/gengo/pkg/gengo/snippet.Snippet)")},
		{"generate", "devpkg/partialstruct", "the unexported method of PartialStruct over (Context, *Named, *Struct)", methodBySig(exportedType("PartialStruct"), "(github.com/octohelm/gengo/pkg/gengo.Context, *go/types.Named, *go/types.Struct) (error)")},
		{"generateType", "devpkg/runtimedocgen", "the unexported method of the generator over (Context, *Named)", methodBySig(aGenType, "(github.com/octohelm/gengo/pkg/gengo.Context, *go/types.Named) (error)")},
		{"generateType", "devpkg/deepcopygen", "the unexported method of the generator over (Context, *Named)", methodBySig(aGenType, "(github.com/octohelm/gengo/pkg/gengo.Context, *go/types.Named) (error)")},
		{"priorCommentLines", "pkg/types", "the unexported method of the package record from (Pos, int) to a comment group", methodBySig(aPkgInfo, "(go/token.Pos, int) (*go/ast.CommentGroup)")},
		{"visited", "pkg/types", "the unexported method of the visit marks over (*ast.FuncType, int)", methodBySig(aVisits, "(*go/ast.FuncType, int) (bool)")},
		// fields
		{"processed", "devpkg/deepcopygen", "the generator's map[*types.Named]bool", fieldOf(aGenType, "map[*go/types.Named]bool", 0)},
		{"processed", "devpkg/runtimedocgen", "the generator's map[*types.Named]bool", fieldOf(aGenType, "map[*go/types.Named]bool", 0)},
		{"startedAt", "pkg/gengo", "the logger's time.Time", fieldOf(aLogger, "time.Time", 0)},
		{"body", "pkg/gengo", "the file's *bytes.Buffer", fieldOf(aGenfile, "*bytes.Buffer", 0)},
		{"universe", "pkg/gengo", "the context's *types.Universe", fieldOf(aGengoCtx, "*github.com/octohelm/gengo/pkg/types.Universe", 0)},
		{"pkg", "pkg/gengo", "the context's types.Package", fieldOf(aGengoCtx, "github.com/octohelm/gengo/pkg/types.Package", 0)},
		{"fmt", "pkg/gengo/snippet", "the string of the Sprintf snippet", fieldOf(aPrinter, "string", 0)},
		{"format", "pkg/gengo/snippet", "the string of the template snippet", fieldOf(aTemplate, "string", 0)},
		{"args", "pkg/gengo/snippet", "the bindings of the template snippet", fieldOf(aTemplate, "map[string]Snippet", 0)},
		{"compiledIrregular", "pkg/inflector/internal", "the first *regexp.Regexp of Rule", fieldOf(exportedType("Rule"), "*regexp.Regexp", 0)},
		{"irregularMap", "pkg/inflector/internal", "the map[string]string of Rule", fieldOf(exportedType("Rule"), "map[string]string", 0)},
		{"pkgs", "pkg/types", "the universe's map[string]Package", fieldOf(exportedType("Universe"), "map[string]Package", 0)},
		{"imports", "pkg/types", "the package record's map[string]Package", fieldOf(aPkgInfo, "map[string]Package", 0)},
		{"signatures", "pkg/types", "the package record's map[*types.Signature]ast.Node", fieldOf(aPkgInfo, "map[*go/types.Signature]go/ast.Node", 0)},
		{"sourceDir", "pkg/types", "the package record's *string", fieldOf(aPkgInfo, "*string", 0)},
		{"funcResults", "pkg/types", "the package record's sync.Map", fieldOf(aPkgInfo, "sync.Map", 0)},
		{"sig", "pkg/types", "the resolver's *types.Signature", fieldOf(aResolver, "*go/types.Signature", 0)},
		// locals
		{"rootPkgPaths", "pkg/types", "the set of Load into which x.Module.Path is stored", localOf(nil, "Load", storedKeySelector("Path"))},
		{"directPkgPaths", "pkg/types", "the set of Load into which x.PkgPath is stored", localOf(nil, "Load", storedKeySelector("PkgPath"))},
	}
}

// resultsFromAstAt and the local `p` of newPkg need the program (their descriptions go through other anchors)
func lateAnchors(p *Program) []anchorSpec {
	return []anchorSpec{
		{"resultsFromAstAt", "pkg/types", "the unexported method of the resolver over (marks, int, *ast.FuncType, *ast.BlockStmt)", methodBySig(aResolver, "(visits, int, *go/ast.FuncType, *go/ast.BlockStmt) (iter.Seq[Result])")},
		{"p", "pkg/types", "the local of the record constructor defined as a literal of the package record", localOf(aNewPkg, "", definedAsLiteralOf(aPkgInfo, p))},
	}
}

// renameGroup: the objects that have to change their name together with obj.
func renameGroup(pkg *packages.Package, obj types.Object) map[types.Object]bool {
	group := map[types.Object]bool{obj: true}
	switch o := obj.(type) {
	case *types.Func:
		if sig, ok := o.Type().(*types.Signature); ok && sig.Recv() != nil {
			// methods of this name in the package, interface methods included (an unexported interface may demand it)
			for _, d := range pkg.TypesInfo.Defs {
				if fn, ok := d.(*types.Func); ok && fn.Name() == o.Name() && fn.Pkg() == o.Pkg() {
					if s, ok := fn.Type().(*types.Signature); ok && s.Recv() != nil {
						group[fn] = true
					}
				}
			}
		}
	case *types.TypeName:
		// embedded fields take the type's name
		for _, d := range pkg.TypesInfo.Defs {
			if v, ok := d.(*types.Var); ok && v.Embedded() {
				t := v.Type()
				if pt, ok := t.(*types.Pointer); ok {
					t = pt.Elem()
				}
				switch tt := t.(type) {
				case *types.Named:
					if tt.Obj() == o {
						group[v] = true
					}
				case *types.Alias:
					if tt.Obj() == o {
						group[v] = true
					}
				}
			}
		}
	}
	return group
}

// RenameOffsets lists, per file, the byte offsets of the identifiers that resolve to obj (or an object that must be
// renamed with it).
func RenameOffsets(p *Program, pkg *packages.Package, obj types.Object) map[string][]int {
	group := renameGroup(pkg, obj)
	out := map[string][]int{}
	seen := map[string]map[int]bool{}
	add := func(id *ast.Ident, o types.Object) {
		if fn, ok := o.(*types.Func); ok {
			o = fn.Origin()
		}
		if v, ok := o.(*types.Var); ok {
			o = v.Origin()
		}
		if !group[o] || id.Name != obj.Name() {
			return
		}
		pos := p.Fset.Position(id.Pos())
		if seen[pos.Filename] == nil {
			seen[pos.Filename] = map[int]bool{}
		}
		if !seen[pos.Filename][pos.Offset] {
			seen[pos.Filename][pos.Offset] = true
			out[pos.Filename] = append(out[pos.Filename], pos.Offset)
		}
	}
	for id, o := range pkg.TypesInfo.Defs {
		if o != nil {
			add(id, o)
		}
	}
	for id, o := range pkg.TypesInfo.Uses {
		add(id, o)
	}
	// an embedded field written as a key of a composite literal or selected resolves to the field object, which is in
	// the group; the type name inside the struct declaration resolves to the type name: both covered
	return out
}

// ApplyRename respells the identifiers at the given offsets of src.
func ApplyRename(src []byte, offs []int, old, new string) []byte {
	offs = append([]int(nil), offs...)
	sort.Sort(sort.Reverse(sort.IntSlice(offs)))
	b := append([]byte(nil), src...)
	for _, o := range offs {
		if o+len(old) > len(b) || string(b[o:o+len(old)]) != old {
			continue
		}
		b = append(b[:o], append([]byte(new), b[o+len(old):]...)...)
	}
	return b
}

func nameTaken(pkg *packages.Package, obj types.Object, name string) bool {
	switch o := obj.(type) {
	case *types.Var:
		if o.IsField() {
			// another field or method of the same struct: find the owner
			for _, d := range pkg.TypesInfo.Defs {
				tn, ok := d.(*types.TypeName)
				if !ok {
					continue
				}
				st, ok := tn.Type().Underlying().(*types.Struct)
				if !ok {
					continue
				}
				own := false
				for i := 0; i < st.NumFields(); i++ {
					if st.Field(i) == o {
						own = true
					}
				}
				if own {
					if f, _, _ := types.LookupFieldOrMethod(tn.Type(), true, pkg.Types, name); f != nil {
						return true
					}
				}
			}
			return false
		}
		if o.Parent() != nil && o.Parent() != pkg.Types.Scope() {
			_, other := o.Parent().LookupParent(name, token.NoPos)
			if other != nil {
				return true
			}
			// a name declared in an inner scope between the declaration and a use would capture the use
			for _, d := range pkg.TypesInfo.Defs {
				if d != nil && d.Name() == name && d.Parent() != nil && d.Pos() >= o.Parent().Pos() && d.Pos() < o.Parent().End() {
					return true
				}
			}
			return false
		}
	case *types.Func:
		if sig, ok := o.Type().(*types.Signature); ok && sig.Recv() != nil {
			t := sig.Recv().Type()
			if f, _, _ := types.LookupFieldOrMethod(t, true, pkg.Types, name); f != nil {
				return true
			}
			return false
		}
	}
	if pkg.Types.Scope().Lookup(name) != nil {
		return true
	}
	// a local of that name anywhere in the package could capture a use of the package-level object
	for _, d := range pkg.TypesInfo.Defs {
		if d != nil && d.Name() == name {
			if _, isField := d.(*types.Var); isField && d.(*types.Var).IsField() {
				continue
			}
			if fn, ok := d.(*types.Func); ok {
				if s, ok := fn.Type().(*types.Signature); ok && s.Recv() != nil {
					continue
				}
			}
			return true
		}
	}
	return false
}

// canonicalOverlay computes the overlay that gives every anchor its canonical name back. It returns nil when
// nothing has to be renamed.
func canonicalOverlay(p *Program, overlay map[string][]byte) (map[string][]byte, []string) {
	type edit struct {
		offs     []int
		old, new string
	}
	perFile := map[string][]edit{}
	var notes []string
	specs := append(append([]anchorSpec(nil), anchorsByRole...), lateAnchors(p)...)
	done := map[types.Object]bool{}
	for _, a := range specs {
		pkg := p.Pkg(a.Pkg)
		if pkg == nil {
			continue
		}
		obj := a.Find(p, pkg)
		if obj == nil || obj.Name() == a.Canon || done[obj] || obj.Pkg() != pkg.Types || token.IsExported(obj.Name()) {
			continue
		}
		if nameTaken(pkg, obj, a.Canon) {
			continue
		}
		done[obj] = true
		for file, offs := range RenameOffsets(p, pkg, obj) {
			perFile[file] = append(perFile[file], edit{offs, obj.Name(), a.Canon})
		}
		notes = append(notes, fmt.Sprintf("%s: `%s` plays the role of `%s` (%s)", a.Pkg, obj.Name(), a.Canon, a.What))
	}
	if len(perFile) == 0 {
		return nil, nil
	}
	out := map[string][]byte{}
	for k, v := range overlay {
		out[k] = v
	}
	for file, edits := range perFile {
		src, ok := out[file]
		if !ok {
			b, err := os.ReadFile(file)
			if err != nil {
				return nil, nil
			}
			src = b
		}
		// all edits of a file at once, from the back
		type one struct {
			off      int
			old, new string
		}
		var all []one
		for _, e := range edits {
			for _, o := range e.offs {
				all = append(all, one{o, e.old, e.new})
			}
		}
		sort.Slice(all, func(i, j int) bool { return all[i].off > all[j].off })
		b := append([]byte(nil), src...)
		for _, e := range all {
			if e.off+len(e.old) > len(b) || string(b[e.off:e.off+len(e.old)]) != e.old {
				continue
			}
			b = append(b[:e.off], append([]byte(e.new), b[e.off+len(e.old):]...)...)
		}
		out[file] = b
	}
	sort.Strings(notes)
	return out, notes
}

// Canonicalise reloads the program with every anchor under its canonical name (at most three rounds: the role of a
// field is described through its owner, which may have been renamed too). A normalisation that does not type-check
// is dropped.
func Canonicalise(p *Program, repo string, overlay map[string][]byte) *Program {
	if os.Getenv("GENGOLINT_NO_CANON") != "" {
		return p
	}
	cur, curOverlay := p, overlay
	var notes []string
	for round := 0; round < 3; round++ {
		ov, ns := canonicalOverlay(cur, curOverlay)
		if ov == nil {
			break
		}
		next, err := loadRaw(repo, ov)
		if err != nil {
			cur.CanonNotes = append(notes, "normalisation dropped: "+strings.SplitN(err.Error(), "\n", 2)[0])
			return cur
		}
		cur, curOverlay = next, ov
		notes = append(notes, ns...)
	}
	cur.CanonNotes = notes
	return cur
}
