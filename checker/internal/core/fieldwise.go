package core

import (
	"go/ast"
	"go/token"
	"go/types"
)

// foldFieldwise undoes the field-by-field spelling of a construction: `x := &T{}` (or `T{}`) directly followed by
// assignments `x.f = e` to distinct fields of T, with nothing in between and no e mentioning x, is the same as
// `x := &T{f: e, …}` - nothing can observe the value between its allocation and the last assignment, and the values are
// evaluated in the same order. Only the statement list is copied; the values are the original expressions.
func foldFieldwise(info *types.Info, list []ast.Stmt) ([]ast.Stmt, bool) {
	// a nested value first (`x.f = &T{}; x.f.g = e` becomes one assignment to x.f), then the value that holds it
	l1, c1 := foldFieldwiseOnce(info, list, true)
	l2, c2 := foldFieldwiseOnce(info, l1, false)
	return l2, c1 || c2
}

func foldFieldwiseOnce(info *types.Info, list []ast.Stmt, nested bool) ([]ast.Stmt, bool) {
	changed := false
	var out []ast.Stmt
	for i := 0; i < len(list); i++ {
		as, ok := list[i].(*ast.AssignStmt)
		if !ok || (as.Tok != token.DEFINE && as.Tok != token.ASSIGN) || len(as.Lhs) != 1 || len(as.Rhs) != 1 {
			out = append(out, list[i])
			continue
		}
		// the value under construction: a new local (`x := &T{}`), or a field of a local (`x.f = &T{}`, then `x.f.g = e`)
		var id *ast.Ident
		var baseSel *ast.SelectorExpr
		switch l := as.Lhs[0].(type) {
		case *ast.Ident:
			if as.Tok == token.DEFINE {
				id = l
			}
		case *ast.SelectorExpr:
			if xid, isID := l.X.(*ast.Ident); isID && as.Tok == token.ASSIGN {
				if s, has := info.Selections[l]; has && s.Kind() == types.FieldVal {
					id, baseSel = xid, l
				}
			}
		}
		if id == nil || (baseSel != nil) != nested {
			out = append(out, list[i])
			continue
		}
		v, _ := info.ObjectOf(id).(*types.Var)
		var amp *ast.UnaryExpr
		rhs := ast.Unparen(as.Rhs[0])
		if u, isU := rhs.(*ast.UnaryExpr); isU && u.Op == token.AND {
			amp, rhs = u, ast.Unparen(u.X)
		}
		// `new(T)` is `&T{}`
		if c, isCall := rhs.(*ast.CallExpr); isCall && amp == nil && len(c.Args) == 1 {
			if fid, isID := c.Fun.(*ast.Ident); isID && fid.Name == "new" {
				if _, isBuiltin := info.Uses[fid].(*types.Builtin); isBuiltin {
					if ttv, has := info.Types[c.Args[0]]; has && ttv.IsType() {
						ncl := &ast.CompositeLit{Type: c.Args[0], Lbrace: c.Lparen, Rbrace: c.Rparen}
						vtv := info.Types[c]
						ctv := vtv
						ctv.Type = ttv.Type
						info.Types[ncl] = ctv
						nu := &ast.UnaryExpr{OpPos: c.Pos(), Op: token.AND, X: ncl}
						info.Types[nu] = vtv
						amp, rhs = nu, ncl
					}
				}
			}
		}
		cl, ok := rhs.(*ast.CompositeLit)
		if !ok || v == nil || len(cl.Elts) != 0 || cl.Type == nil {
			out = append(out, list[i])
			continue
		}
		st, isStruct := info.TypeOf(cl).Underlying().(*types.Struct)
		if !isStruct {
			out = append(out, list[i])
			continue
		}
		seen := map[string]bool{}
		var elts []ast.Expr
		j := i + 1
		for ; j < len(list); j++ {
			fa, ok := list[j].(*ast.AssignStmt)
			if !ok || fa.Tok != token.ASSIGN || len(fa.Lhs) != 1 || len(fa.Rhs) != 1 {
				break
			}
			sel, ok := fa.Lhs[0].(*ast.SelectorExpr)
			if !ok {
				break
			}
			if baseSel == nil {
				if xid, isID := sel.X.(*ast.Ident); !isID || info.ObjectOf(xid) != types.Object(v) {
					break
				}
			} else {
				inner, isSel := sel.X.(*ast.SelectorExpr)
				if !isSel || inner.Sel.Name != baseSel.Sel.Name {
					break
				}
				if xid, isID := inner.X.(*ast.Ident); !isID || info.ObjectOf(xid) != types.Object(v) {
					break
				}
			}
			s, has := info.Selections[sel]
			if !has || s.Kind() != types.FieldVal || len(s.Index()) != 1 || seen[sel.Sel.Name] {
				break
			}
			var fld *types.Var
			for k := 0; k < st.NumFields(); k++ {
				if st.Field(k) == s.Obj() {
					fld = st.Field(k)
				}
			}
			if fld == nil || Mentions(info, fa.Rhs[0], v) {
				break
			}
			seen[sel.Sel.Name] = true
			key := &ast.Ident{NamePos: sel.Sel.NamePos, Name: sel.Sel.Name}
			info.Uses[key] = fld
			elts = append(elts, &ast.KeyValueExpr{Key: key, Colon: fa.TokPos, Value: fa.Rhs[0]})
		}
		if len(elts) == 0 {
			out = append(out, list[i])
			continue
		}
		ncl := &ast.CompositeLit{Type: cl.Type, Lbrace: cl.Lbrace, Elts: elts, Rbrace: list[j-1].End() - 1}
		if tv, has := info.Types[cl]; has {
			info.Types[ncl] = tv
		}
		var nrhs ast.Expr = ncl
		if amp != nil {
			nu := &ast.UnaryExpr{OpPos: amp.OpPos, Op: token.AND, X: ncl}
			if tv, has := info.Types[amp]; has {
				info.Types[nu] = tv
			}
			nrhs = nu
		}
		out = append(out, &ast.AssignStmt{Lhs: as.Lhs, TokPos: as.TokPos, Tok: as.Tok, Rhs: []ast.Expr{nrhs}})
		i = j - 1
		changed = true
	}
	if !changed {
		return list, false
	}
	return out, true
}
