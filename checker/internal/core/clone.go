package core

import (
	"go/ast"
	"go/types"
	"reflect"
)

// cloner copies syntax trees for rewritten views. Function literals are never copied (their identity is what rules and
// Program.FuncOfLit know them by); a substitution function can replace expressions on the way. For every copied node the
// type information of the original is registered for the copy, so rules keep resolving callees, fields and variables.
type cloner struct {
	info   *types.Info
	subst  func(e ast.Expr) ast.Expr // non-nil result: use it instead of copying e
	hitLit bool                      // a substitution was wanted inside a function literal (views give up then)
	lits   bool                      // copy function literals too (the view then has literals of its own)
	made   map[ast.Node]ast.Node     // original -> copy, when asked for
}

var (
	nodeType = reflect.TypeOf((*ast.Node)(nil)).Elem()
)

func (c *cloner) expr(e ast.Expr) ast.Expr {
	if e == nil {
		return nil
	}
	return c.node(e).(ast.Expr)
}

func (c *cloner) stmt(s ast.Stmt) ast.Stmt {
	if s == nil {
		return nil
	}
	return c.node(s).(ast.Stmt)
}

func (c *cloner) block(b *ast.BlockStmt) *ast.BlockStmt {
	if b == nil {
		return nil
	}
	return c.node(b).(*ast.BlockStmt)
}

func (c *cloner) node(n ast.Node) ast.Node {
	if n == nil || reflect.ValueOf(n).IsNil() {
		return n
	}
	if e, ok := n.(ast.Expr); ok && c.subst != nil {
		if r := c.subst(e); r != nil {
			return r
		}
	}
	switch x := n.(type) {
	case *ast.FuncLit:
		if c.lits {
			break // copied like any other node
		}
		// kept as it is; a wanted substitution inside cannot be made
		if c.subst != nil {
			ast.Inspect(x.Body, func(m ast.Node) bool {
				if e, ok := m.(ast.Expr); ok && c.subst(e) != nil {
					c.hitLit = true
				}
				return !c.hitLit
			})
		}
		if !c.lits {
			return x
		}
	case *ast.CommentGroup, *ast.Comment:
		return x
	}
	ov := reflect.ValueOf(n)
	if ov.Kind() != reflect.Ptr || ov.Elem().Kind() != reflect.Struct {
		return n
	}
	nv := reflect.New(ov.Elem().Type())
	nv.Elem().Set(ov.Elem()) // shallow copy first (positions, tokens, *ast.Object, *ast.Scope)
	for i := 0; i < ov.Elem().NumField(); i++ {
		of := ov.Elem().Field(i)
		nf := nv.Elem().Field(i)
		switch of.Kind() {
		case reflect.Interface, reflect.Ptr:
			if of.IsNil() {
				continue
			}
			if child, ok := of.Interface().(ast.Node); ok {
				cp := c.node(child)
				nf.Set(reflect.ValueOf(cp))
			}
		case reflect.Slice:
			if of.IsNil() || of.Len() == 0 {
				continue
			}
			if !of.Type().Elem().Implements(nodeType) {
				continue
			}
			ns := reflect.MakeSlice(of.Type(), of.Len(), of.Len())
			for k := 0; k < of.Len(); k++ {
				el := of.Index(k)
				if el.Kind() == reflect.Interface || el.Kind() == reflect.Ptr {
					if el.IsNil() {
						continue
					}
				}
				cp := c.node(el.Interface().(ast.Node))
				ns.Index(k).Set(reflect.ValueOf(cp))
			}
			nf.Set(ns)
		}
	}
	out := nv.Interface().(ast.Node)
	c.register(n, out)
	if c.made != nil {
		c.made[n] = out
	}
	return out
}

// register copies the type information of an original node to its copy.
func (c *cloner) register(old, cp ast.Node) {
	info := c.info
	if oe, ok := old.(ast.Expr); ok {
		if tv, has := info.Types[oe]; has {
			info.Types[cp.(ast.Expr)] = tv
		}
	}
	switch o := old.(type) {
	case *ast.Ident:
		n := cp.(*ast.Ident)
		if obj, has := info.Defs[o]; has {
			info.Defs[n] = obj
		}
		if obj, has := info.Uses[o]; has {
			info.Uses[n] = obj
		}
		if inst, has := info.Instances[o]; has {
			info.Instances[n] = inst
		}
	case *ast.SelectorExpr:
		if sel, has := info.Selections[o]; has {
			info.Selections[cp.(*ast.SelectorExpr)] = sel
		}
	}
	if obj, has := info.Implicits[old]; has {
		info.Implicits[cp] = obj
	}
	if sc, has := info.Scopes[old]; has {
		info.Scopes[cp] = sc
	}
}
