package core

import (
	"go/ast"
	"go/token"
	"go/types"

	"golang.org/x/tools/go/packages"
)

// desugarForwardingClosures shows calls of a local forwarding closure as the call it forwards to:
//
//	printf := func(format string, args ...any) { _, _ = fmt.Fprintf(w, format, args...) }
//	printf("import (\n")                 is shown as    _, _ = fmt.Fprintf(w, "import (\n")
//	printf("\t%s %q\n", name, path)      is shown as    _, _ = fmt.Fprintf(w, "\t%s %q\n", name, path)
//
// Conditions, all syntactic: the closure is bound once by `v := func(…) {…}` and v is used for nothing but calls that
// stand alone as statements; it has no results and its body is one statement - a call of a declared function or method,
// alone or assigned to blanks - in which every parameter occurs exactly once, as an argument of that call (the variadic
// parameter as the final `p...`), and every other operand is an identifier, a field selection or a literal (so nothing
// is evaluated in another order or another number of times). The statements are replaced in place at load time (copies
// carrying the originals' type information; the arguments are the call site's own nodes); the closure's definition
// is shown as an empty statement. Every rule then sees the forwarded call where it happens.
func desugarForwardingClosures(pkgs []*packages.Package) {
	for _, pkg := range pkgs {
		info := pkg.TypesInfo
		for _, file := range pkg.Syntax {
			for _, d := range file.Decls {
				fd, ok := d.(*ast.FuncDecl)
				if !ok || fd.Body == nil {
					continue
				}
				desugarFwdIn(info, fd.Body)
			}
		}
	}
}

type fwdClosure struct {
	v      *types.Var
	def    *ast.AssignStmt
	lit    *ast.FuncLit
	stmt   ast.Stmt      // the single statement of the body
	call   *ast.CallExpr // the forwarded call in it
	params []*types.Var
	varIdx int // index of the variadic parameter in params, or -1
}

func desugarFwdIn(info *types.Info, body *ast.BlockStmt) {
	// candidates
	var cands []*fwdClosure
	ast.Inspect(body, func(n ast.Node) bool {
		as, ok := n.(*ast.AssignStmt)
		if !ok || as.Tok != token.DEFINE || len(as.Lhs) != 1 || len(as.Rhs) != 1 {
			return true
		}
		lit, ok := ast.Unparen(as.Rhs[0]).(*ast.FuncLit)
		if !ok || lit.Type.Results != nil && len(lit.Type.Results.List) > 0 || len(lit.Body.List) != 1 {
			return true
		}
		id, ok := as.Lhs[0].(*ast.Ident)
		if !ok {
			return true
		}
		v, _ := info.Defs[id].(*types.Var)
		if v == nil {
			return true
		}
		fc := &fwdClosure{v: v, def: as, lit: lit, stmt: lit.Body.List[0], varIdx: -1}
		switch s := fc.stmt.(type) {
		case *ast.ExprStmt:
			fc.call, _ = ast.Unparen(s.X).(*ast.CallExpr)
		case *ast.AssignStmt:
			if s.Tok == token.ASSIGN && len(s.Rhs) == 1 {
				allBlank := true
				for _, l := range s.Lhs {
					if bid, isID := l.(*ast.Ident); !isID || bid.Name != "_" {
						allBlank = false
					}
				}
				if allBlank {
					fc.call, _ = ast.Unparen(s.Rhs[0]).(*ast.CallExpr)
				}
			}
		}
		if fc.call == nil || CalleeFunc(info, fc.call) == nil {
			return true
		}
		if lit.Type.Params != nil {
			for _, fld := range lit.Type.Params.List {
				if len(fld.Names) == 0 {
					return true
				}
				for _, nm := range fld.Names {
					pv, _ := info.Defs[nm].(*types.Var)
					if pv == nil {
						return true
					}
					if _, isEll := fld.Type.(*ast.Ellipsis); isEll {
						fc.varIdx = len(fc.params)
					}
					fc.params = append(fc.params, pv)
				}
			}
		}
		// every parameter exactly once, as a direct argument of the forwarded call; everything else plain
		count := map[*types.Var]int{}
		okShape := true
		for i, a := range fc.call.Args {
			if aid, isID := ast.Unparen(a).(*ast.Ident); isID {
				if pv, isVar := info.Uses[aid].(*types.Var); isVar {
					isParam := false
					for k, q := range fc.params {
						if q == pv {
							isParam = true
							count[pv]++
							if k == fc.varIdx && !(i == len(fc.call.Args)-1 && fc.call.Ellipsis.IsValid()) {
								okShape = false
							}
						}
					}
					if isParam {
						continue
					}
				}
			}
			if !plainOperand(info, a) {
				okShape = false
			}
		}
		for _, q := range fc.params {
			if count[q] != 1 {
				okShape = false
			}
		}
		// the callee expression mentions no parameter and is plain
		switch fx := ast.Unparen(fc.call.Fun).(type) {
		case *ast.Ident:
		case *ast.SelectorExpr:
			if !plainOperand(info, fx.X) {
				okShape = false
			}
		default:
			okShape = false
		}
		ast.Inspect(fc.call.Fun, func(m ast.Node) bool {
			if mid, isID := m.(*ast.Ident); isID {
				for _, q := range fc.params {
					if info.Uses[mid] == types.Object(q) {
						okShape = false
					}
				}
				if info.Uses[mid] == types.Object(v) {
					okShape = false
				}
			}
			return true
		})
		if okShape {
			cands = append(cands, fc)
		}
		return true
	})
	if len(cands) == 0 {
		return
	}
	for _, fc := range cands {
		// uses of v: only calls that stand alone as statements
		var sites []*ast.ExprStmt
		okUses := true
		ast.Inspect(body, func(n ast.Node) bool {
			if es, isES := n.(*ast.ExprStmt); isES {
				if c, isCall := ast.Unparen(es.X).(*ast.CallExpr); isCall {
					if fid, isID := ast.Unparen(c.Fun).(*ast.Ident); isID && info.Uses[fid] == types.Object(fc.v) {
						sites = append(sites, es)
					}
				}
			}
			return true
		})
		siteCall := map[*ast.Ident]bool{}
		for _, es := range sites {
			c := ast.Unparen(es.X).(*ast.CallExpr)
			siteCall[ast.Unparen(c.Fun).(*ast.Ident)] = true
			// arity: fixed parameters all given
			nfixed := len(fc.params)
			if fc.varIdx >= 0 {
				nfixed--
			}
			if len(c.Args) < nfixed || (fc.varIdx < 0 && len(c.Args) != nfixed) {
				okUses = false
			}
			if c.Ellipsis.IsValid() && (fc.varIdx < 0 || len(c.Args) != len(fc.params)) {
				okUses = false
			}
		}
		ast.Inspect(body, func(n ast.Node) bool {
			if id, isID := n.(*ast.Ident); isID && info.Uses[id] == types.Object(fc.v) && !siteCall[id] {
				okUses = false
			}
			return true
		})
		if !okUses || len(sites) == 0 {
			continue
		}
		repl := map[ast.Stmt]ast.Stmt{}
		for _, es := range sites {
			site := ast.Unparen(es.X).(*ast.CallExpr)
			argOf := map[*types.Var]ast.Expr{}
			for k, q := range fc.params {
				if k != fc.varIdx && k < len(site.Args) {
					argOf[q] = site.Args[k]
				}
			}
			cl := &cloner{info: info}
			cl.subst = func(e ast.Expr) ast.Expr {
				if id, isID := e.(*ast.Ident); isID {
					if pv, isVar := info.Uses[id].(*types.Var); isVar {
						if a, has := argOf[pv]; has {
							return a
						}
					}
				}
				return nil
			}
			nc := &ast.CallExpr{Fun: cl.expr(fc.call.Fun), Lparen: fc.call.Lparen, Rparen: fc.call.Rparen}
			for i, a := range fc.call.Args {
				if fc.varIdx >= 0 && i == len(fc.call.Args)-1 && fc.call.Ellipsis.IsValid() {
					if aid, isID := ast.Unparen(a).(*ast.Ident); isID && info.Uses[aid] == types.Object(fc.params[fc.varIdx]) {
						nc.Args = append(nc.Args, site.Args[fc.varIdx:]...)
						if site.Ellipsis.IsValid() {
							nc.Ellipsis = fc.call.Ellipsis
						}
						continue
					}
				}
				nc.Args = append(nc.Args, cl.expr(a))
			}
			if fc.varIdx < 0 || !fc.call.Ellipsis.IsValid() {
				nc.Ellipsis = fc.call.Ellipsis
			}
			if tv, has := info.Types[fc.call]; has {
				info.Types[nc] = tv
			}
			var ns ast.Stmt
			switch s := fc.stmt.(type) {
			case *ast.ExprStmt:
				ns = &ast.ExprStmt{X: nc}
			case *ast.AssignStmt:
				na := &ast.AssignStmt{TokPos: s.TokPos, Tok: s.Tok, Rhs: []ast.Expr{nc}}
				for _, l := range s.Lhs {
					na.Lhs = append(na.Lhs, &ast.Ident{NamePos: l.Pos(), Name: "_"})
				}
				ns = na
			}
			repl[es] = ns
		}
		repl[fc.def] = &ast.EmptyStmt{Semicolon: fc.def.Pos(), Implicit: true}
		replaceStmts(body, repl)
	}
}

func replaceStmts(root ast.Node, repl map[ast.Stmt]ast.Stmt) {
	fix := func(list []ast.Stmt) {
		for i, s := range list {
			if ns, ok := repl[s]; ok {
				list[i] = ns
			}
		}
	}
	ast.Inspect(root, func(n ast.Node) bool {
		switch x := n.(type) {
		case *ast.BlockStmt:
			fix(x.List)
		case *ast.CaseClause:
			fix(x.Body)
		case *ast.CommClause:
			fix(x.Body)
		}
		return true
	})
}
