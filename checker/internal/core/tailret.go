package core

import (
	"go/ast"
	"go/constant"
	"go/token"
	"go/types"
)

// tailReturns undoes the "single exit" spelling of a function: when the body ends in `return v` with v a local variable
// that is not captured by a literal and whose address is not taken, an assignment `v = X` that is the last thing
// executed before that return - the last statement of the body, or of a branch of an if / switch / block that is itself
// last - is the same as `return X` there; so is `v = X; break` at the end of a block of a loop that is the last
// statement before the return. When afterwards no assignment to v is left and v was declared without a value, the final
// `return v` returns the zero value and is shown as such. Only statement lists on the way are copied; every other node
// is the original one. The rules then see the several returns a maintainer folded into one result variable.
func tailReturns(info *types.Info, body *ast.BlockStmt) (*ast.BlockStmt, bool) {
	n := len(body.List)
	if n < 2 {
		return body, false
	}
	ret, ok := body.List[n-1].(*ast.ReturnStmt)
	if !ok || len(ret.Results) != 1 {
		return body, false
	}
	id, ok := ast.Unparen(ret.Results[0]).(*ast.Ident)
	if !ok {
		return body, false
	}
	v, _ := info.ObjectOf(id).(*types.Var)
	if v == nil || v.IsField() || !DeclaredIn(info, body, v) {
		return body, false
	}
	// not captured, address not taken
	safe := true
	ast.Inspect(body, func(m ast.Node) bool {
		switch x := m.(type) {
		case *ast.FuncLit:
			ast.Inspect(x.Body, func(q ast.Node) bool {
				if i2, ok := q.(*ast.Ident); ok && info.ObjectOf(i2) == types.Object(v) {
					safe = false
				}
				return safe
			})
			return false
		case *ast.UnaryExpr:
			if x.Op == token.AND {
				if i2, ok := ast.Unparen(x.X).(*ast.Ident); ok && info.ObjectOf(i2) == types.Object(v) {
					safe = false
				}
			}
		}
		return safe
	})
	if !safe {
		return body, false
	}
	isAssignV := func(s ast.Stmt) (ast.Expr, bool) {
		as, ok := s.(*ast.AssignStmt)
		if !ok || as.Tok != token.ASSIGN || len(as.Lhs) != 1 || len(as.Rhs) != 1 {
			return nil, false
		}
		if i2, ok := ast.Unparen(as.Lhs[0]).(*ast.Ident); ok && info.ObjectOf(i2) == types.Object(v) {
			return as.Rhs[0], true
		}
		return nil, false
	}
	var push func(list []ast.Stmt) ([]ast.Stmt, bool)
	var pushStmt func(s ast.Stmt) (ast.Stmt, bool)
	var pushLoopBody func(b *ast.BlockStmt) (*ast.BlockStmt, bool)
	pushBlock := func(b *ast.BlockStmt) (*ast.BlockStmt, bool) {
		if b == nil {
			return b, false
		}
		l, ch := push(b.List)
		if !ch {
			return b, false
		}
		return &ast.BlockStmt{Lbrace: b.Lbrace, List: l, Rbrace: b.Rbrace}, true
	}
	pushStmt = func(s ast.Stmt) (ast.Stmt, bool) {
		switch x := s.(type) {
		case *ast.AssignStmt:
			if rhs, ok := isAssignV(x); ok {
				return &ast.ReturnStmt{Return: x.Pos(), Results: []ast.Expr{rhs}}, true
			}
		case *ast.BlockStmt:
			return pushBlock(x)
		case *ast.IfStmt:
			nb, c1 := pushBlock(x.Body)
			var ne ast.Stmt = x.Else
			c2 := false
			if x.Else != nil {
				ne, c2 = pushStmt(x.Else)
			}
			if c1 || c2 {
				return &ast.IfStmt{If: x.If, Init: x.Init, Cond: x.Cond, Body: nb, Else: ne}, true
			}
		case *ast.SwitchStmt:
			if nb, ch := pushClauses(x.Body, push); ch {
				return &ast.SwitchStmt{Switch: x.Switch, Init: x.Init, Tag: x.Tag, Body: nb}, true
			}
		case *ast.TypeSwitchStmt:
			if nb, ch := pushClauses(x.Body, push); ch {
				return &ast.TypeSwitchStmt{Switch: x.Switch, Init: x.Init, Assign: x.Assign, Body: nb}, true
			}
		case *ast.ForStmt:
			if nb, ch := pushLoopBody(x.Body); ch {
				return &ast.ForStmt{For: x.For, Init: x.Init, Cond: x.Cond, Post: x.Post, Body: nb}, true
			}
		case *ast.RangeStmt:
			if nb, ch := pushLoopBody(x.Body); ch {
				return &ast.RangeStmt{For: x.For, Key: x.Key, Value: x.Value, TokPos: x.TokPos, Tok: x.Tok, Range: x.Range, X: x.X, Body: nb}, true
			}
		}
		return s, false
	}
	push = func(list []ast.Stmt) ([]ast.Stmt, bool) {
		if len(list) == 0 {
			return list, false
		}
		last, ch := pushStmt(list[len(list)-1])
		if !ch {
			return list, false
		}
		out := append(append([]ast.Stmt{}, list[:len(list)-1]...), last)
		return out, true
	}
	// `v = X; break` at the end of a block of the loop (blocks reached through if / block statements only)
	pushLoopBody = func(b *ast.BlockStmt) (*ast.BlockStmt, bool) {
		if b == nil {
			return b, false
		}
		changed := false
		out := make([]ast.Stmt, 0, len(b.List))
		for i := 0; i < len(b.List); i++ {
			s := b.List[i]
			if i+1 < len(b.List) && i+2 == len(b.List) {
				if rhs, ok := isAssignV(s); ok {
					if br, isBr := b.List[i+1].(*ast.BranchStmt); isBr && br.Tok == token.BREAK && br.Label == nil {
						out = append(out, &ast.ReturnStmt{Return: s.Pos(), Results: []ast.Expr{rhs}})
						changed = true
						break
					}
				}
			}
			switch x := s.(type) {
			case *ast.IfStmt:
				nb, c1 := pushLoopBody(x.Body)
				var ne ast.Stmt = x.Else
				c2 := false
				if eb, isB := x.Else.(*ast.BlockStmt); isB {
					var neb *ast.BlockStmt
					neb, c2 = pushLoopBody(eb)
					ne = neb
				}
				if c1 || c2 {
					s = &ast.IfStmt{If: x.If, Init: x.Init, Cond: x.Cond, Body: nb, Else: ne}
					changed = true
				}
			case *ast.BlockStmt:
				if nb, c := pushLoopBody(x); c {
					s = nb
					changed = true
				}
			}
			out = append(out, s)
		}
		if !changed {
			return b, false
		}
		return &ast.BlockStmt{Lbrace: b.Lbrace, List: out, Rbrace: b.Rbrace}, true
	}
	rest, changed := push(body.List[:n-1])
	if !changed {
		return body, false
	}
	// is any assignment to v left?
	left := false
	var decl *ast.ValueSpec
	for _, s := range rest {
		ast.Inspect(s, func(m ast.Node) bool {
			switch x := m.(type) {
			case *ast.AssignStmt:
				for _, l := range x.Lhs {
					if i2, ok := ast.Unparen(l).(*ast.Ident); ok && info.ObjectOf(i2) == types.Object(v) && info.Defs[i2] == nil {
						left = true
					}
				}
			case *ast.IncDecStmt:
				if i2, ok := ast.Unparen(x.X).(*ast.Ident); ok && info.ObjectOf(i2) == types.Object(v) {
					left = true
				}
			case *ast.ValueSpec:
				for _, nme := range x.Names {
					if info.ObjectOf(nme) == types.Object(v) {
						decl = x
					}
				}
			case *ast.RangeStmt:
				for _, kv := range []ast.Expr{x.Key, x.Value} {
					if i2, ok := kv.(*ast.Ident); ok && info.ObjectOf(i2) == types.Object(v) {
						left = true
					}
				}
			}
			return true
		})
	}
	final := ast.Stmt(ret)
	if !left && decl != nil && len(decl.Values) == 0 {
		if z := zeroExpr(info, v.Type(), ret.Pos()); z != nil {
			final = &ast.ReturnStmt{Return: ret.Return, Results: []ast.Expr{z}}
		}
	}
	if !left && decl == nil {
		// declared with a constant value (`sum := ""`) and never assigned on the way that is left: that constant
		for _, s := range rest {
			if as, ok := s.(*ast.AssignStmt); ok && as.Tok == token.DEFINE && len(as.Lhs) == len(as.Rhs) {
				for i, l := range as.Lhs {
					if id2, isID := l.(*ast.Ident); isID && info.ObjectOf(id2) == types.Object(v) {
						if tv, has := info.Types[as.Rhs[i]]; has && (tv.Value != nil || tv.IsNil()) {
							final = &ast.ReturnStmt{Return: ret.Return, Results: []ast.Expr{as.Rhs[i]}}
						}
					}
				}
			}
		}
	}
	out := append([]ast.Stmt{}, rest...)
	if len(rest) == 0 || !terminates(rest[len(rest)-1]) {
		out = append(out, final) // otherwise every way through ends in a return of its own: the final one is dead
	}
	return &ast.BlockStmt{Lbrace: body.Lbrace, List: out, Rbrace: body.Rbrace}, true
}

func pushClauses(b *ast.BlockStmt, push func([]ast.Stmt) ([]ast.Stmt, bool)) (*ast.BlockStmt, bool) {
	changed := false
	out := make([]ast.Stmt, len(b.List))
	for i, s := range b.List {
		out[i] = s
		cc, ok := s.(*ast.CaseClause)
		if !ok {
			continue
		}
		if nl, ch := push(cc.Body); ch {
			out[i] = &ast.CaseClause{Case: cc.Case, List: cc.List, Colon: cc.Colon, Body: nl}
			changed = true
		}
	}
	if !changed {
		return b, false
	}
	return &ast.BlockStmt{Lbrace: b.Lbrace, List: out, Rbrace: b.Rbrace}, true
}

// zeroExpr: an expression for the zero value of t, registered in info (nil for types without a simple spelling).
func zeroExpr(info *types.Info, t types.Type, pos token.Pos) ast.Expr {
	switch u := t.Underlying().(type) {
	case *types.Interface, *types.Pointer, *types.Slice, *types.Map, *types.Chan, *types.Signature:
		id := &ast.Ident{NamePos: pos, Name: "nil"}
		info.Uses[id] = types.Universe.Lookup("nil")
		info.Types[id] = types.TypeAndValue{Type: types.Typ[types.UntypedNil]}
		return id
	case *types.Basic:
		switch {
		case u.Info()&types.IsBoolean != 0:
			id := &ast.Ident{NamePos: pos, Name: "false"}
			info.Uses[id] = types.Universe.Lookup("false")
			info.Types[id] = types.TypeAndValue{Type: t, Value: constant.MakeBool(false)}
			return id
		case u.Info()&types.IsString != 0:
			lit := &ast.BasicLit{ValuePos: pos, Kind: token.STRING, Value: `""`}
			info.Types[lit] = types.TypeAndValue{Type: t, Value: constant.MakeString("")}
			return lit
		case u.Info()&types.IsInteger != 0:
			lit := &ast.BasicLit{ValuePos: pos, Kind: token.INT, Value: "0"}
			info.Types[lit] = types.TypeAndValue{Type: t, Value: constant.MakeInt64(0)}
			return lit
		}
	}
	return nil
}
