// Package cfgx wraps golang.org/x/tools/go/cfg with the path queries the rules
// need: reachability between program points with cut nodes / cut edges,
// must-pass-through, and the branch facts that hold at a point.
package cfgx

import (
	"go/ast"
	"go/token"
	"go/types"

	"golang.org/x/tools/go/cfg"
	"golang.org/x/tools/go/types/typeutil"
)

// Point is a position in the graph: node I of block B. I == len(B.Nodes) is
// the end of the block (after its last node, before the branch).
type Point struct {
	B *cfg.Block
	I int
}

func (p Point) Valid() bool { return p.B != nil }

func (p Point) Node() ast.Node {
	if p.B == nil || p.I >= len(p.B.Nodes) {
		return nil
	}
	return p.B.Nodes[p.I]
}

type G struct {
	C    *cfg.CFG
	Info *types.Info
	Body *ast.BlockStmt

	caseOf map[ast.Expr]*ast.SwitchStmt
	lits   []*ast.FuncLit
	owner  map[ast.Node]Point
}

// MayReturn answers false for calls that never return: the builtin panic
// (resolved through the type checker, so a shadowed panic is not mistaken),
// os.Exit, log.Fatal*, runtime.Goexit.
func MayReturn(info *types.Info) func(*ast.CallExpr) bool {
	return func(call *ast.CallExpr) bool {
		switch o := typeutil.Callee(info, call).(type) {
		case *types.Builtin:
			return o.Name() != "panic"
		case *types.Func:
			switch o.FullName() {
			case "os.Exit", "log.Fatal", "log.Fatalf", "log.Fatalln", "runtime.Goexit":
				return false
			}
		}
		return true
	}
}

func New(body *ast.BlockStmt, info *types.Info) *G {
	g := &G{C: cfg.New(body, MayReturn(info)), Info: info, Body: body, caseOf: map[ast.Expr]*ast.SwitchStmt{}}
	ast.Inspect(body, func(n ast.Node) bool {
		switch x := n.(type) {
		case *ast.FuncLit:
			g.lits = append(g.lits, x)
			return false
		case *ast.SwitchStmt:
			for _, c := range x.Body.List {
				for _, e := range c.(*ast.CaseClause).List {
					g.caseOf[e] = x
				}
			}
		}
		return true
	})
	return g
}

func (g *G) Entry() Point { return Point{g.C.Blocks[0], 0} }

// InLit reports whether n lies inside a function literal nested in the body
// (such nodes do not execute where they are written).
func (g *G) InLit(n ast.Node) bool {
	for _, l := range g.lits {
		if l.Pos() <= n.Pos() && n.End() <= l.End() {
			return true
		}
	}
	return false
}

// PointOf returns the innermost CFG node that contains n: by node identity
// (so that synthetic statements of a flattened view, whose source ranges are
// meaningless, are found), falling back to source ranges for nodes that are not
// part of the body's tree.
func (g *G) PointOf(n ast.Node) Point {
	if g.owner == nil {
		g.owner = map[ast.Node]Point{}
		size := map[ast.Node]int{}
		for _, b := range g.C.Blocks {
			if !b.Live {
				continue
			}
			for i, node := range b.Nodes {
				cnt := 0
				ast.Inspect(node, func(m ast.Node) bool {
					if m != nil {
						cnt++
					}
					return true
				})
				pt := Point{b, i}
				ast.Inspect(node, func(m ast.Node) bool {
					if m == nil {
						return true
					}
					if old, ok := size[m]; !ok || cnt < old {
						size[m] = cnt
						g.owner[m] = pt
					}
					return true
				})
			}
		}
	}
	if pt, ok := g.owner[n]; ok {
		return pt
	}
	var best Point
	var bestLen token.Pos = -1
	for _, b := range g.C.Blocks {
		if !b.Live {
			continue
		}
		for i, node := range b.Nodes {
			if node.Pos() <= n.Pos() && n.End() <= node.End() {
				l := node.End() - node.Pos()
				if bestLen < 0 || l < bestLen {
					best, bestLen = Point{b, i}, l
				}
			}
		}
	}
	return best
}

// Points returns every point whose node satisfies pred.
func (g *G) Points(pred func(ast.Node) bool) []Point {
	var out []Point
	for _, b := range g.C.Blocks {
		if !b.Live {
			continue
		}
		for i, node := range b.Nodes {
			if pred(node) {
				out = append(out, Point{b, i})
			}
		}
	}
	return out
}

type Query struct {
	// Target is tested on every visited point (including end-of-block points,
	// whose Node() is nil) before Cut.
	Target func(Point) bool
	// Cut stops the traversal at a point (after the target test).
	Cut func(Point) bool
	// CutEdge removes the edge from block b to its k-th successor.
	CutEdge func(b *cfg.Block, k int) bool
}

// Reach walks forward from start. If inclusive, start itself is visited
// first; otherwise the walk begins after start's node has executed.
// It returns the first target point found.
func (g *G) Reach(start Point, inclusive bool, q Query) (Point, bool) {
	type key struct {
		b *cfg.Block
		i int
	}
	seen := map[key]bool{}
	var stack []Point
	if inclusive {
		stack = append(stack, start)
	} else {
		stack = append(stack, Point{start.B, start.I + 1})
	}
	for len(stack) > 0 {
		p := stack[len(stack)-1]
		stack = stack[:len(stack)-1]
		if p.I > len(p.B.Nodes) {
			p.I = len(p.B.Nodes)
		}
		k := key{p.B, p.I}
		if seen[k] {
			continue
		}
		seen[k] = true
		if q.Target != nil && q.Target(p) {
			return p, true
		}
		if q.Cut != nil && q.Cut(p) {
			continue
		}
		if p.I < len(p.B.Nodes) {
			stack = append(stack, Point{p.B, p.I + 1})
			continue
		}
		for si, s := range p.B.Succs {
			if q.CutEdge != nil && q.CutEdge(p.B, si) {
				continue
			}
			stack = append(stack, Point{s, 0})
		}
	}
	return Point{}, false
}

func samePoint(a, b Point) bool { return a.B == b.B && a.I == b.I }

// CanReach: is there a path from a (after it executes) to b?
func (g *G) CanReach(a, b Point) bool {
	_, ok := g.Reach(a, false, Query{Target: func(p Point) bool { return samePoint(p, b) }})
	return ok
}

// Dominates: every path from entry to b executes a first.
func (g *G) Dominates(a, b Point) bool {
	if samePoint(a, b) {
		return true
	}
	_, ok := g.Reach(g.Entry(), true, Query{
		Target: func(p Point) bool { return samePoint(p, b) },
		Cut:    func(p Point) bool { return samePoint(p, a) },
	})
	return !ok
}

// DominatedBySome: every path from entry to b executes a node satisfying pred first.
func (g *G) DominatedBySome(b Point, pred func(Point) bool) bool {
	_, ok := g.Reach(g.Entry(), true, Query{
		Target: func(p Point) bool { return samePoint(p, b) },
		Cut:    func(p Point) bool { return !samePoint(p, b) && p.Node() != nil && pred(p) },
	})
	return !ok
}

// IsExit reports whether p is a normal function exit: a return statement or
// the fall-off end of the body. Blocks ending in a call that cannot return
// (panic) are not normal exits.
func (g *G) IsExit(p Point) bool {
	if n := p.Node(); n != nil {
		_, ok := n.(*ast.ReturnStmt)
		return ok
	}
	// end of block without successors and without a return: fall-off end
	if p.I == len(p.B.Nodes) && len(p.B.Succs) == 0 {
		if len(p.B.Nodes) > 0 {
			last := p.B.Nodes[len(p.B.Nodes)-1]
			if _, ok := last.(*ast.ReturnStmt); ok {
				return false // already counted at the return node
			}
			if es, ok := last.(*ast.ExprStmt); ok {
				if call, ok := es.X.(*ast.CallExpr); ok && !MayReturn(g.Info)(call) {
					return false
				}
			}
		}
		return true
	}
	return false
}

// Exits lists the normal exit points.
func (g *G) Exits() []Point {
	var out []Point
	for _, b := range g.C.Blocks {
		if !b.Live {
			continue
		}
		for i := 0; i <= len(b.Nodes); i++ {
			p := Point{b, i}
			if g.IsExit(p) {
				out = append(out, p)
			}
		}
	}
	return out
}

// PostDominatedBySome: every path from a (after it executes) to a normal exit
// executes a node satisfying pred.
func (g *G) PostDominatedBySome(a Point, pred func(Point) bool) bool {
	_, ok := g.Reach(a, false, Query{
		Target: func(p Point) bool { return g.IsExit(p) && !(p.Node() != nil && pred(p)) },
		Cut:    func(p Point) bool { return p.Node() != nil && pred(p) },
	})
	return !ok
}

// Fact is a branch condition known to have evaluated to Val on every path
// that reaches a point. For a switch with a tag, Tag is the tag and Cond the
// case expression (Tag == Cond evaluated to Val).
type Fact struct {
	Cond ast.Expr
	Tag  ast.Expr
	Val  bool
}

// condOf returns the deciding condition of a two-way block, if it has one.
func (g *G) condOf(b *cfg.Block) (cond ast.Expr, tag ast.Expr, ok bool) {
	if len(b.Succs) != 2 || len(b.Nodes) == 0 || b.Kind == cfg.KindRangeLoop {
		return nil, nil, false
	}
	e, isExpr := b.Nodes[len(b.Nodes)-1].(ast.Expr)
	if !isExpr {
		return nil, nil, false
	}
	if sw, isCase := g.caseOf[e]; isCase {
		return e, sw.Tag, true
	}
	// the successor must be an if/for branch
	switch b.Succs[0].Kind {
	case cfg.KindIfThen, cfg.KindForBody:
		return e, nil, true
	}
	return nil, nil, false
}

// Branches lists every two-way branch of the graph.
type Branch struct {
	B    *cfg.Block
	Cond ast.Expr
	Tag  ast.Expr
}

func (g *G) Branches() []Branch {
	var out []Branch
	for _, b := range g.C.Blocks {
		if !b.Live {
			continue
		}
		if c, t, ok := g.condOf(b); ok {
			out = append(out, Branch{b, c, t})
		}
	}
	return out
}

// EdgeDominates: every path from entry to p traverses the edge b -> Succs[k].
func (g *G) EdgeDominates(b *cfg.Block, k int, p Point) bool {
	_, ok := g.Reach(g.Entry(), true, Query{
		Target:  func(q Point) bool { return samePoint(q, p) },
		CutEdge: func(bb *cfg.Block, kk int) bool { return bb == b && kk == k },
	})
	return !ok
}

// FactsAt returns the atomic branch facts that hold whenever p is reached.
// A fact is dropped when a variable it mentions may be assigned between the
// branch and p.
func (g *G) FactsAt(p Point) []Fact {
	var out []Fact
	for _, br := range g.Branches() {
		for k := 0; k < 2; k++ {
			if !g.EdgeDominates(br.B, k, p) {
				continue
			}
			if g.killedBetween(br, k, p) {
				continue
			}
			f := Fact{Cond: br.Cond, Tag: br.Tag, Val: k == 0}
			if br.Tag != nil {
				out = append(out, f)
				continue
			}
			out = append(out, Atoms(f.Cond, f.Val)...)
		}
	}
	return g.throughBoolLocals(out, p)
}

// throughBoolLocals adds, for a fact about a boolean local that was computed once (`ok := token.IsIdentifier(name)`,
// `taken := a || b` followed by `if !ok`), the facts about the expression it was computed from - the explaining local
// and the test written out in the `if` say the same thing. Conditions: the local is defined exactly once, by `:=`, from
// a non-constant expression, and every variable that expression mentions is itself assigned at most once in the
// function (so the expression has the same value where the fact is used as where it was computed, within one
// iteration of whatever loop encloses both).
func (g *G) throughBoolLocals(facts []Fact, at Point) []Fact {
	if g.Info == nil || len(facts) == 0 {
		return facts
	}
	var defsOf func(v types.Object) []*ast.AssignStmt
	counted := map[types.Object][]*ast.AssignStmt{}
	other := map[types.Object]int{}
	scanned := false
	scan := func() {
		if scanned {
			return
		}
		scanned = true
		for _, b := range g.C.Blocks {
			for _, n := range b.Nodes {
				ast.Inspect(n, func(m ast.Node) bool {
					switch x := m.(type) {
					case *ast.FuncLit:
						return false
					case *ast.AssignStmt:
						for _, l := range x.Lhs {
							if id, ok := ast.Unparen(l).(*ast.Ident); ok {
								if o := g.Info.ObjectOf(id); o != nil {
									counted[o] = append(counted[o], x)
								}
							}
						}
					case *ast.IncDecStmt:
						if id, ok := ast.Unparen(x.X).(*ast.Ident); ok {
							if o := g.Info.ObjectOf(id); o != nil {
								other[o]++
							}
						}
					case *ast.RangeStmt:
						for _, kv := range []ast.Expr{x.Key, x.Value} {
							if id, ok := kv.(*ast.Ident); ok {
								if o := g.Info.ObjectOf(id); o != nil {
									other[o]++
								}
							}
						}
					case *ast.UnaryExpr:
						if x.Op == token.AND {
							if id, ok := ast.Unparen(x.X).(*ast.Ident); ok {
								if o := g.Info.ObjectOf(id); o != nil {
									other[o] += 2 // address taken: anything can assign it
								}
							}
						}
					}
					return true
				})
			}
		}
	}
	defsOf = func(v types.Object) []*ast.AssignStmt { scan(); return counted[v] }
	out := facts
	for depth := 0; depth < 2; depth++ {
		var extra []Fact
		for _, f := range facts {
			id, ok := ast.Unparen(f.Cond).(*ast.Ident)
			if !ok || f.Tag != nil {
				continue
			}
			v, isVar := g.Info.ObjectOf(id).(*types.Var)
			if !isVar || v.IsField() {
				continue
			}
			if bt, isB := v.Type().Underlying().(*types.Basic); !isB || bt.Kind() != types.Bool {
				continue
			}
			ds := defsOf(v)
			if len(ds) != 1 || other[v] > 0 || ds[0].Tok != token.DEFINE || len(ds[0].Lhs) != 1 || len(ds[0].Rhs) != 1 {
				continue
			}
			rhs := ds[0].Rhs[0]
			if tv, has := g.Info.Types[rhs]; has && tv.Value != nil {
				continue
			}
			stable := true
			var vars []types.Object
			ast.Inspect(rhs, func(m ast.Node) bool {
				if _, isLit := m.(*ast.FuncLit); isLit {
					stable = false
					return false
				}
				if mid, isID := m.(*ast.Ident); isID {
					if ov, isV := g.Info.ObjectOf(mid).(*types.Var); isV && !ov.IsField() {
						if other[ov] >= 2 {
							stable = false // address taken
						}
						vars = append(vars, ov)
					}
				}
				return stable
			})
			if stable && len(vars) > 0 {
				// nothing the expression mentions is assigned on a path from the local's definition to the point of
				// use that does not compute the local anew
				d := g.PointOf(ds[0])
				if !d.Valid() {
					stable = false
				} else {
					_, hit := g.Reach(d, false, Query{
						Target: func(q Point) bool {
							n := q.Node()
							if n == nil || samePoint(q, d) {
								return false
							}
							assigns := false
							for _, ov := range vars {
								if g.Assigns(n, ov) {
									assigns = true
								}
							}
							if !assigns {
								return false
							}
							if samePoint(q, at) {
								return true
							}
							_, reaches := g.Reach(q, false, Query{
								Target: func(r Point) bool { return samePoint(r, at) },
								Cut:    func(r Point) bool { return samePoint(r, d) },
							})
							return reaches
						},
						Cut: func(q Point) bool { return samePoint(q, d) },
					})
					stable = !hit
				}
			}
			if !stable {
				continue
			}
			extra = append(extra, Atoms(rhs, f.Val)...)
		}
		if len(extra) == 0 {
			break
		}
		out = append(out, extra...)
		facts = extra
	}
	return out
}

// Atoms decomposes a boolean condition with a known value into the atomic
// sub-conditions whose value follows (three-valued: a&&b true => both true;
// a||b false => both false; !a flips).
func Atoms(e ast.Expr, val bool) []Fact {
	e = ast.Unparen(e)
	switch x := e.(type) {
	case *ast.UnaryExpr:
		if x.Op == token.NOT {
			return Atoms(x.X, !val)
		}
	case *ast.BinaryExpr:
		if x.Op == token.LAND && val {
			return append(Atoms(x.X, true), Atoms(x.Y, true)...)
		}
		if x.Op == token.LOR && !val {
			return append(Atoms(x.X, false), Atoms(x.Y, false)...)
		}
	}
	return []Fact{{Cond: e, Val: val}}
}

// killedBetween: may a variable mentioned in the branch condition be assigned
// on a path from the edge to p?
func (g *G) killedBetween(br Branch, k int, p Point) bool {
	vars := map[types.Object]bool{}
	collect := func(e ast.Expr) {
		if e == nil {
			return
		}
		ast.Inspect(e, func(n ast.Node) bool {
			if id, ok := n.(*ast.Ident); ok {
				if v, ok := g.Info.Uses[id].(*types.Var); ok && !v.IsField() {
					vars[v] = true
				}
			}
			return true
		})
	}
	collect(br.Cond)
	collect(br.Tag)
	if len(vars) == 0 {
		return false
	}
	start := Point{br.B.Succs[k], 0}
	// an assignment only kills the fact when it can reach p without passing
	// the branch edge again (passing it re-establishes the fact)
	edge := func(b *cfg.Block, kk int) bool { return b == br.B && kk == k }
	_, found := g.Reach(start, true, Query{
		Target: func(q Point) bool {
			if samePoint(q, p) {
				return false
			}
			n := q.Node()
			if n == nil || !g.assignsAny(n, vars) {
				return false
			}
			_, reaches := g.Reach(q, false, Query{Target: func(t Point) bool { return samePoint(t, p) }, CutEdge: edge})
			return reaches
		},
		Cut:     func(q Point) bool { return samePoint(q, p) },
		CutEdge: edge,
	})
	return found
}

func (g *G) assignsAny(n ast.Node, vars map[types.Object]bool) bool {
	hit := false
	check := func(e ast.Expr) {
		if id, ok := ast.Unparen(e).(*ast.Ident); ok {
			if o := g.Info.ObjectOf(id); o != nil && vars[o] {
				hit = true
			}
		}
	}
	switch x := n.(type) {
	case *ast.AssignStmt:
		for _, l := range x.Lhs {
			check(l)
		}
	case *ast.IncDecStmt:
		check(x.X)
	case *ast.RangeStmt:
		if x.Key != nil {
			check(x.Key)
		}
		if x.Value != nil {
			check(x.Value)
		}
	case *ast.Ident:
		// range key/value nodes are added as bare identifiers
		// (they are definitions only in RangeLoop context; treat as assignment)
		if g.isRangeKV(x) {
			check(x)
		}
	case *ast.UnaryExpr:
		// &v escapes
	}
	// address-of anywhere inside the node: conservatively an assignment
	if !hit {
		ast.Inspect(n, func(m ast.Node) bool {
			if _, ok := m.(*ast.FuncLit); ok {
				return false
			}
			if u, ok := m.(*ast.UnaryExpr); ok && u.Op == token.AND {
				check(u.X)
			}
			return true
		})
	}
	return hit
}

func (g *G) isRangeKV(id *ast.Ident) bool {
	found := false
	ast.Inspect(g.Body, func(n ast.Node) bool {
		if found {
			return false
		}
		if rs, ok := n.(*ast.RangeStmt); ok {
			if rs.Key == ast.Expr(id) || rs.Value == ast.Expr(id) {
				found = true
			}
		}
		return true
	})
	return found
}

// Assigns reports whether CFG node n assigns variable v (plain assignment,
// inc/dec, range key/value).
func (g *G) Assigns(n ast.Node, v types.Object) bool {
	return g.assignsAny(n, map[types.Object]bool{v: true})
}

// BlockOf returns the block of the given kind created for stmt
// (e.g. KindRangeBody of a range statement).
func (g *G) BlockOf(kind cfg.BlockKind, stmt ast.Stmt) *cfg.Block {
	for _, b := range g.C.Blocks {
		if b.Kind == kind && b.Stmt == stmt {
			return b
		}
	}
	return nil
}

// FirstIn returns the first CFG node (by source position) lying inside n.
func (g *G) FirstIn(n ast.Node) Point {
	var best Point
	for _, b := range g.C.Blocks {
		if !b.Live {
			continue
		}
		for i, node := range b.Nodes {
			if n.Pos() <= node.Pos() && node.End() <= n.End() {
				if !best.Valid() || node.Pos() < best.Node().Pos() {
					best = Point{b, i}
				}
			}
		}
	}
	return best
}
