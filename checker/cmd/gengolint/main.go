// gengolint decides the structural clauses of the gengo properties C01..C20
// from the current source of the repository. It never executes repository code.
package main

import (
	"encoding/json"
	"flag"
	"fmt"
	"os"
	"os/exec"
	"path/filepath"
	"runtime/debug"
	"sort"
	"strconv"
	"strings"
	"sync"
	"time"

	"gengoverif/checker/internal/core"
	"gengoverif/checker/internal/rules"
)

type edit struct {
	File    string `json:"file"`
	Find    string `json:"find"`
	Replace string `json:"replace"`
}

type mutant struct {
	ID         string `json:"id"`
	Kind       string `json:"kind"` // "breaking" or "benign"
	Edits      []edit `json:"edits"`
	Patch      string `json:"patch,omitempty"` // instead of edits: a unified diff (path relative to the verif dir)
	ExpectRule string `json:"expect_rule,omitempty"`
	Note       string `json:"note,omitempty"`
}

type mutantResult struct {
	ID         string   `json:"id"`
	Kind       string   `json:"kind"`
	Status     string   `json:"status"` // killed | survived | silent | false-alarm | inapplicable | does-not-compile | error
	Rules      []string `json:"rules_fired,omitempty"`
	ExpectRule string   `json:"expect_rule,omitempty"`
	Note       string   `json:"note,omitempty"`
	Detail     string   `json:"detail,omitempty"`
}

type childOut struct {
	Error      string            `json:"error,omitempty"`
	Violations []core.Obligation `json:"violations"`
}

func main() {
	var (
		prop     = flag.String("prop", "", "property id (C01..C20)")
		tier     = flag.String("tier", "quick", "quick | thorough | child")
		repo     = flag.String("repo", "/repo", "repository root")
		verif    = flag.String("verif", "", "verification root (default: parent of the binary's dir)")
		overlayF = flag.String("overlay", "", "JSON file {abs path: replacement content} (child mode)")
		replay   = flag.String("replay", "", "replay file: re-run the rules named in it")
		verbose  = flag.Bool("v", false, "print every obligation")
	)
	flag.Parse()

	if *verif == "" {
		exe, _ := os.Executable()
		*verif = filepath.Dir(filepath.Dir(exe))
	}
	if *replay != "" {
		var rp struct {
			Property string `json:"property"`
		}
		data, err := os.ReadFile(*replay)
		if err != nil {
			fmt.Println("cannot read replay file:", err)
			os.Exit(2)
		}
		_ = json.Unmarshal(data, &rp)
		*prop = rp.Property
	}
	if *prop == "ALL" && *tier == "child" {
		runChildAll(*repo, *overlayF)
		return
	}
	check, ok := rules.Registry[*prop]
	if !ok {
		fmt.Printf("unknown property %q\n", *prop)
		os.Exit(2)
	}
	seed := 0
	if s := os.Getenv("VERIF_SEED"); s != "" {
		seed, _ = strconv.Atoi(s)
	}

	if *tier == "child" {
		runChild(check, *repo, *overlayF)
		return
	}

	t0 := time.Now()
	evPath := filepath.Join(*verif, "evidence", *prop+".json")
	replayPath := filepath.Join(*verif, "replay", *prop+"-"+*tier+".json")

	fail := func(msg string) {
		// the checker itself could not decide: this fails the check
		fmt.Printf("%s: CHECK-ERROR %s\n", *prop, msg)
		r := core.NewReport(nil, *prop)
		_ = r
		ev := &core.Evidence{PropertyID: *prop, Tier: *tier, Seed: seed, Level: "other",
			Coverage:   map[string]any{"explanation": "the check could not run: " + msg, "obligations": 0, "discharged": 0, "evaluations": 0, "distinct_nontrivial": 0},
			WallS:      time.Since(t0).Seconds(),
			Violations: 1}
		_ = core.WriteJSON(evPath, ev)
		_ = core.WriteJSON(replayPath, map[string]any{"property": *prop, "error": msg})
		fmt.Printf("VIOLATION property=%s replay=%s\n", *prop, replayPath)
		os.Exit(1)
	}

	prog, err := core.Load(*repo, nil)
	if err != nil {
		fail(err.Error())
	}
	for _, n := range prog.CanonNotes {
		fmt.Printf("%s: note: %s\n", *prop, n)
	}
	rep := core.NewReport(prog, *prop)
	if perr := runRules(check, prog, rep); perr != "" {
		fail("checker panic: " + perr)
	}
	known, err := core.LoadKnown(filepath.Join(*verif, "known_findings.json"))
	if err != nil {
		fail("known_findings.json: " + err.Error())
	}
	out := rep.Finish(known)

	extra := map[string]any{}
	if *tier == "thorough" {
		results := runMutants(*prop, *repo, *verif)
		killed, breaking, silent, benign, inappl := 0, 0, 0, 0, 0
		for _, m := range results {
			switch m.Kind {
			case "breaking":
				if m.Status == "inapplicable" {
					inappl++
					continue
				}
				breaking++
				if m.Status == "killed" {
					killed++
				}
			case "benign":
				if m.Status == "inapplicable" {
					inappl++
					continue
				}
				benign++
				if m.Status == "silent" {
					silent++
				}
			}
		}
		extra["mutants"] = breaking
		extra["mutants_killed"] = killed
		extra["benign_variants"] = benign
		extra["benign_silent"] = silent
		extra["mutants_inapplicable"] = inappl
		extra["kill_matrix"] = results
		extra["mutant_note"] = "each catalogued source edit is applied through go/packages' Overlay (no copy of the repository, nothing executed) and the property's rules are re-run on the edited program; breaking edits must be reported, behaviour-preserving edits must not. Edits whose anchor text is not present in the current tree are 'inapplicable'. The matrix is a self-test of the rules; it does not change the verdict on the tree."
		for _, m := range results {
			if (m.Kind == "breaking" && m.Status != "killed" && m.Status != "inapplicable") || (m.Kind == "benign" && m.Status != "silent" && m.Status != "inapplicable") {
				fmt.Printf("%s: SELFTEST %s mutant %s: %s %s\n", *prop, m.Kind, m.ID, m.Status, m.Detail)
			}
		}
		cs, csk, cb, cbs := 0, 0, 0, 0
		for _, m := range results {
			if m.Status == "inapplicable" {
				continue
			}
			switch {
			case strings.HasPrefix(m.ID, "seeded/"):
				cs++
				if m.Status == "killed" {
					csk++
				}
			case strings.HasPrefix(m.ID, "refactoring/"):
				cb++
				if m.Status == "silent" {
					cbs++
				}
			}
		}
		extra["corpus_seeded"], extra["corpus_seeded_reported"], extra["corpus_refactorings"], extra["corpus_refactorings_silent"] = cs, csk, cb, cbs
		fmt.Printf("%s: mutant catalogue: %d/%d breaking edits reported, %d/%d benign edits silent, %d inapplicable (of these, independent corpora: %d/%d seeded changes reported, %d/%d refactorings silent)\n", *prop, killed, breaking, silent, benign, inappl, csk, cs, cbs, cb)
	}

	ev := rep.Evidence(out, *tier, seed, time.Since(t0).Seconds(), check.Explanation, check.Assumptions, extra)

	if *verbose {
		for _, o := range rep.Obls {
			fmt.Printf("  %-22s %-12s %s: %s — %s [%s]\n", o.Pos, o.Rule, o.Func, o.Construct, o.How, o.Status)
		}
	}
	for _, h := range out.KnownHits {
		fmt.Printf("KNOWN-FINDING: property=%s %s %s: %s — %s\n", *prop, h.O.Rule, h.O.Func, h.O.Construct, h.K.WhatFails)
	}
	fmt.Printf("%s %s: %d packages, %d functions analysed; %d obligations: %d discharged (%d by review), %d known, %d violated/undecided\n",
		*prop, *tier, len(prog.InScope()), len(prog.Funcs()), len(rep.Obls),
		out.Counts[core.Discharged]+out.Counts[core.Reviewed], out.Counts[core.Reviewed], out.Counts[core.Known], len(out.Violations))

	ev.WallS = time.Since(t0).Seconds()
	if err := core.WriteJSON(evPath, ev); err != nil {
		fmt.Println("cannot write evidence:", err)
		os.Exit(2)
	}
	if len(out.Violations) > 0 {
		for _, o := range out.Violations {
			fmt.Printf("%s: [%s] %s: %s — %s (%s)\n", o.Pos, o.Rule, o.Func, o.Construct, o.How, o.Status)
		}
		_ = core.WriteJSON(replayPath, map[string]any{"property": *prop, "tier": *tier, "violations": out.Violations})
		fmt.Printf("VIOLATION property=%s replay=%s\n", *prop, replayPath)
		os.Exit(1)
	}
	_ = os.Remove(replayPath)
}

func runRules(check rules.Property, prog *core.Program, rep *core.Report) (perr string) {
	defer func() {
		if e := recover(); e != nil {
			perr = fmt.Sprintf("%v\n%s", e, debug.Stack())
		}
	}()
	check.Run(prog, rep)
	return ""
}

func runChild(check rules.Property, repo, overlayFile string) {
	var out childOut
	emit := func() {
		data, _ := json.Marshal(out)
		fmt.Println(string(data))
	}
	overlay := map[string][]byte{}
	if overlayFile != "" {
		data, err := os.ReadFile(overlayFile)
		if err != nil {
			out.Error = err.Error()
			emit()
			return
		}
		var m map[string]string
		if err := json.Unmarshal(data, &m); err != nil {
			out.Error = err.Error()
			emit()
			return
		}
		for k, v := range m {
			overlay[k] = []byte(v)
		}
	}
	prog, err := core.Load(repo, overlay)
	if err != nil {
		out.Error = "load: " + err.Error()
		emit()
		return
	}
	rep := core.NewReport(prog, check.ID)
	if perr := runRules(check, prog, rep); perr != "" {
		out.Error = "panic: " + perr
		emit()
		return
	}
	// known findings are NOT applied to mutants: a mutant must be reported on
	// its own construct, which is compared with the base run by the parent.
	res := rep.Finish(nil)
	out.Violations = res.Violations
	emit()
}

// runChildAll runs every property's rules on one load of the (overlaid) program: used by the rename sweep
// (cmd/renamesweep), which asks whether a behaviour-preserving renaming makes any check report something.
func runChildAll(repo, overlayFile string) {
	type allOut struct {
		Error      string                       `json:"error,omitempty"`
		Violations map[string][]core.Obligation `json:"violations"`
	}
	out := allOut{Violations: map[string][]core.Obligation{}}
	emit := func() {
		data, _ := json.Marshal(out)
		fmt.Println(string(data))
	}
	overlay := map[string][]byte{}
	if overlayFile != "" {
		data, err := os.ReadFile(overlayFile)
		if err != nil {
			out.Error = err.Error()
			emit()
			return
		}
		var m map[string]string
		if err := json.Unmarshal(data, &m); err != nil {
			out.Error = err.Error()
			emit()
			return
		}
		for k, v := range m {
			overlay[k] = []byte(v)
		}
	}
	prog, err := core.Load(repo, overlay)
	if err != nil {
		out.Error = "load: " + err.Error()
		emit()
		return
	}
	ids := make([]string, 0, len(rules.Registry))
	for id := range rules.Registry {
		ids = append(ids, id)
	}
	sort.Strings(ids)
	for _, id := range ids {
		check := rules.Registry[id]
		rep := core.NewReport(prog, id)
		if perr := runRules(check, prog, rep); perr != "" {
			out.Violations[id] = []core.Obligation{{Rule: id + ".panic", How: perr}}
			continue
		}
		res := rep.Finish(nil)
		if len(res.Violations) > 0 {
			out.Violations[id] = res.Violations
		}
	}
	emit()
}

func runMutants(prop, repo, verif string) []mutantResult {
	data, err := os.ReadFile(filepath.Join(verif, "mutants", prop+".json"))
	if err != nil {
		return nil
	}
	var ms []mutant
	if err := json.Unmarshal(data, &ms); err != nil {
		return []mutantResult{{ID: "catalogue", Status: "error", Detail: err.Error()}}
	}
	// the independently produced corpora: the seeded breaking changes of this property must be
	// reported by it, every behaviour-preserving refactoring must leave it silent
	if dirs, _ := filepath.Glob(filepath.Join(verif, "seeded", prop+"-*", "patch.diff")); len(dirs) > 0 {
		sort.Strings(dirs)
		for _, d := range dirs {
			rel, _ := filepath.Rel(verif, d)
			ms = append(ms, mutant{ID: "seeded/" + filepath.Base(filepath.Dir(d)), Kind: "breaking", Patch: rel, Note: "independently seeded breaking change (see its README.md)"})
		}
	}
	if dirs, _ := filepath.Glob(filepath.Join(verif, "benign", "*", "patch.diff")); len(dirs) > 0 {
		sort.Strings(dirs)
		for _, d := range dirs {
			rel, _ := filepath.Rel(verif, d)
			ms = append(ms, mutant{ID: "refactoring/" + filepath.Base(filepath.Dir(d)), Kind: "benign", Patch: rel, Note: "independently produced behaviour-preserving refactoring"})
		}
	}
	// violations of the unmutated tree (without known-finding suppression), to
	// tell a mutant's own report from a pre-existing one
	exe, _ := os.Executable()
	base := childRun(exe, prop, repo, "")
	baseKeys := map[string]bool{}
	for _, v := range base.Violations {
		baseKeys[v.Rule+"|"+v.Key()] = true
	}

	results := make([]mutantResult, len(ms))
	sem := make(chan struct{}, 6)
	var wg sync.WaitGroup
	tmpdir, _ := os.MkdirTemp("", "gengolint-mut-")
	defer os.RemoveAll(tmpdir)
	for i, m := range ms {
		wg.Add(1)
		go func(i int, m mutant) {
			defer wg.Done()
			sem <- struct{}{}
			defer func() { <-sem }()
			res := mutantResult{ID: m.ID, Kind: m.Kind, ExpectRule: m.ExpectRule, Note: m.Note}
			overlay := map[string]string{}
			if m.Patch != "" {
				ov, why := overlayFromPatch(repo, filepath.Join(verif, m.Patch), filepath.Join(tmpdir, "p"+fmt.Sprint(i)))
				if ov == nil {
					res.Status, res.Detail = "inapplicable", why
					results[i] = res
					return
				}
				overlay = ov
			}
			for _, e := range m.Edits {
				abs := filepath.Join(repo, e.File)
				src, ok := overlay[abs]
				if !ok {
					b, err := os.ReadFile(abs)
					if err != nil {
						res.Status, res.Detail = "inapplicable", "file missing: "+e.File
						results[i] = res
						return
					}
					src = string(b)
				}
				if strings.Count(src, e.Find) != 1 {
					res.Status, res.Detail = "inapplicable", fmt.Sprintf("anchor text occurs %d times in %s", strings.Count(src, e.Find), e.File)
					results[i] = res
					return
				}
				overlay[abs] = strings.Replace(src, e.Find, e.Replace, 1)
			}
			of := filepath.Join(tmpdir, strings.ReplaceAll(m.ID, "/", "_")+".json")
			b, _ := json.Marshal(overlay)
			_ = os.WriteFile(of, b, 0o644)
			out := childRun(exe, prop, repo, of)
			if out.Error != "" {
				if strings.Contains(out.Error, "does not type-check") {
					res.Status = "does-not-compile"
					if m.Patch != "" {
						res.Status = "inapplicable"
					}
				} else {
					res.Status = "error"
				}
				res.Detail = out.Error
				if len(res.Detail) > 400 {
					res.Detail = res.Detail[:400]
				}
				results[i] = res
				return
			}
			fired := map[string]bool{}
			for _, v := range out.Violations {
				if !baseKeys[v.Rule+"|"+v.Key()] {
					fired[v.Rule] = true
				}
			}
			for r := range fired {
				res.Rules = append(res.Rules, r)
			}
			sort.Strings(res.Rules)
			switch m.Kind {
			case "breaking":
				if len(fired) == 0 {
					res.Status = "survived"
				} else if m.ExpectRule != "" && !fired[m.ExpectRule] {
					res.Status = "killed"
					res.Detail = "reported by another rule than expected"
				} else {
					res.Status = "killed"
				}
			default:
				if len(fired) == 0 {
					res.Status = "silent"
				} else {
					res.Status = "false-alarm"
					for _, v := range out.Violations {
						if !baseKeys[v.Rule+"|"+v.Key()] {
							res.Detail += fmt.Sprintf("[%s] %s: %s — %s; ", v.Rule, v.Func, v.Construct, v.How)
						}
					}
				}
			}
			results[i] = res
		}(i, m)
	}
	wg.Wait()
	return results
}

// overlayFromPatch applies a unified diff to scratch copies of the files it touches (in dir, which is
// removed by the caller) and returns the patched contents keyed by their path in the repository.
func overlayFromPatch(repo, patch, dir string) (map[string]string, string) {
	data, err := os.ReadFile(patch)
	if err != nil {
		return nil, "patch missing"
	}
	files := map[string]bool{}
	for _, line := range strings.Split(string(data), "\n") {
		for _, pre := range []string{"+++ b/", "--- a/"} {
			if strings.HasPrefix(line, pre) {
				files[strings.TrimSpace(strings.TrimPrefix(line, pre))] = true
			}
		}
	}
	if len(files) == 0 {
		return nil, "no files in patch"
	}
	for f := range files {
		b, err := os.ReadFile(filepath.Join(repo, f))
		if err != nil {
			continue // created by the patch
		}
		dst := filepath.Join(dir, f)
		if err := os.MkdirAll(filepath.Dir(dst), 0o755); err != nil {
			return nil, err.Error()
		}
		if err := os.WriteFile(dst, b, 0o644); err != nil {
			return nil, err.Error()
		}
	}
	if err := os.MkdirAll(dir, 0o755); err != nil {
		return nil, err.Error()
	}
	cmd := exec.Command("git", "apply", "--whitespace=nowarn", patch)
	cmd.Dir = dir
	cmd.Env = append(os.Environ(), "GIT_CEILING_DIRECTORIES="+filepath.Dir(dir), "GIT_DIR=/nonexistent")
	if out, err := cmd.CombinedOutput(); err != nil {
		return nil, "patch does not apply to the current tree: " + strings.TrimSpace(string(out))
	}
	ov := map[string]string{}
	for f := range files {
		b, err := os.ReadFile(filepath.Join(dir, f))
		if err != nil {
			continue // deleted by the patch: not supported, leave the original
		}
		ov[filepath.Join(repo, f)] = string(b)
	}
	return ov, ""
}

func childRun(exe, prop, repo, overlayFile string) childOut {
	args := []string{"-prop", prop, "-tier", "child", "-repo", repo}
	if overlayFile != "" {
		args = append(args, "-overlay", overlayFile)
	}
	cmd := exec.Command(exe, args...)
	cmd.Stderr = nil
	data, err := cmd.Output()
	var out childOut
	if len(data) > 0 {
		// last line is the JSON
		lines := strings.Split(strings.TrimSpace(string(data)), "\n")
		if jerr := json.Unmarshal([]byte(lines[len(lines)-1]), &out); jerr != nil {
			out.Error = "bad child output: " + jerr.Error()
		}
		return out
	}
	if err != nil {
		out.Error = "child failed: " + err.Error()
	}
	return out
}
