// renamesweep: a self-test of the checker against the most common behaviour-preserving edit there is - giving an
// unexported function, method, type, field, constant, package-level variable, parameter or local another name.
//
// For every such object of the library packages it builds the renamed program as a go/packages overlay (every
// identifier that the type checker resolves to the object is respelled; nothing is copied, nothing is executed),
// runs all twenty checks on it (gengolint -tier child -prop ALL) and reports the renamings on which some check
// raises an alarm. A renaming that no longer type-checks (a name clash, an unexported interface method that has to be
// renamed together with its implementations and was not) is skipped and counted.
//
// usage: renamesweep -gengolint <bin> [-repo /repo] [-kinds func,method,type,field,const,var,local] [-match <re>]
//
//	[-j N] [-out file.json]
package main

import (
	"encoding/json"
	"flag"
	"fmt"
	"go/token"
	"go/types"
	"os"
	"os/exec"
	"path/filepath"
	"regexp"
	"sort"
	"strings"
	"sync"
	"unicode"

	"gengoverif/checker/internal/core"
)

type target struct {
	ID    string // kind:pkg.owner.name
	Kind  string
	Old   string
	New   string
	Edits map[string][]int // file -> offsets of identifiers to respell
}

type result struct {
	ID     string              `json:"id"`
	Kind   string              `json:"kind"`
	Old    string              `json:"old"`
	New    string              `json:"new"`
	Status string              `json:"status"` // silent | alarm | does-not-compile | error
	Alarms map[string][]string `json:"alarms,omitempty"`
	Detail string              `json:"detail,omitempty"`
}

func newName(old string) string {
	r := []rune(old)
	r[0] = unicode.ToUpper(r[0])
	return "zq" + string(r)
}

func main() {
	var (
		lint  = flag.String("gengolint", "", "path of the gengolint binary")
		repo  = flag.String("repo", "/repo", "repository root")
		kinds = flag.String("kinds", "func,method,type,field,const,var,local", "kinds of objects to rename")
		match = flag.String("match", "", "only objects whose id matches this regular expression")
		jobs  = flag.Int("j", 8, "parallel child runs")
		outF  = flag.String("out", "", "write the full result list here (JSON)")
		list  = flag.Bool("list", false, "only list the targets")
	)
	flag.Parse()
	want := map[string]bool{}
	for _, k := range strings.Split(*kinds, ",") {
		want[strings.TrimSpace(k)] = true
	}
	var re *regexp.Regexp
	if *match != "" {
		re = regexp.MustCompile(*match)
	}
	prog, err := core.Load(*repo, nil)
	if err != nil {
		fmt.Println("load:", err)
		os.Exit(2)
	}
	var targets []*target
	for _, pkg := range prog.InScope() {
		rel := core.RelPkg(pkg.PkgPath)
		info := pkg.TypesInfo
		enclosing := func(pos token.Pos) string {
			if f := prog.EnclosingFunc(pkg, pos); f != nil {
				return f.Name
			}
			return ""
		}
		seenGroup := map[string]bool{}
		for id, obj := range info.Defs {
			if obj == nil || id.Name == "_" || obj.Pkg() == nil || obj.Pkg() != pkg.Types {
				continue
			}
			if token.IsExported(id.Name) || id.Name == "init" || id.Name == "main" {
				continue
			}
			if strings.HasSuffix(prog.Fset.Position(id.Pos()).Filename, "_test.go") {
				continue
			}
			kind := ""
			owner := ""
			switch o := obj.(type) {
			case *types.Func:
				if sig := o.Type().(*types.Signature); sig.Recv() != nil {
					kind = "method"
					if seenGroup[o.Name()] {
						continue
					}
					seenGroup[o.Name()] = true
				} else {
					kind = "func"
				}
			case *types.TypeName:
				if _, isTP := o.Type().(*types.TypeParam); isTP {
					kind = "local"
					owner = enclosing(id.Pos())
				} else if o.Parent() == pkg.Types.Scope() {
					kind = "type"
				} else {
					kind = "local"
					owner = enclosing(id.Pos())
				}
			case *types.Var:
				switch {
				case o.Embedded():
					continue // renamed with its type
				case o.IsField():
					kind = "field"
					owner = fmt.Sprint(prog.Fset.Position(id.Pos()).Line)
				case o.Parent() == pkg.Types.Scope():
					kind = "var"
				default:
					kind = "local"
					owner = enclosing(id.Pos()) + "@" + fmt.Sprint(prog.Fset.Position(id.Pos()).Line)
				}
			case *types.Const:
				if o.Parent() == pkg.Types.Scope() {
					kind = "const"
				} else {
					kind = "local"
					owner = enclosing(id.Pos())
				}
			default:
				continue // labels, package names
			}
			if !want[kind] {
				continue
			}
			tid := kind + ":" + rel + "." + id.Name
			if owner != "" {
				tid = kind + ":" + rel + "." + owner + "." + id.Name
			}
			t := &target{ID: tid, Kind: kind, Old: id.Name, New: newName(id.Name), Edits: core.RenameOffsets(prog, pkg, obj)}
			targets = append(targets, t)
		}
	}
	var sel []*target
	for _, t := range targets {
		if re != nil && !re.MatchString(t.ID) {
			continue
		}
		if len(t.Edits) == 0 {
			continue
		}
		sel = append(sel, t)
	}
	sort.Slice(sel, func(i, j int) bool { return sel[i].ID < sel[j].ID })
	if *list {
		for _, t := range sel {
			n := 0
			for _, ps := range t.Edits {
				n += len(ps)
			}
			fmt.Printf("%s -> %s (%d identifiers)\n", t.ID, t.New, n)
		}
		fmt.Println(len(sel), "targets")
		return
	}
	if *lint == "" {
		fmt.Println("-gengolint required")
		os.Exit(2)
	}
	tmp, _ := os.MkdirTemp("", "renamesweep-")
	defer os.RemoveAll(tmp)
	srcCache := map[string][]byte{}
	var mu sync.Mutex
	readSrc := func(file string) []byte {
		mu.Lock()
		defer mu.Unlock()
		if b, ok := srcCache[file]; ok {
			return b
		}
		b, _ := os.ReadFile(file)
		srcCache[file] = b
		return b
	}
	results := make([]result, len(sel))
	sem := make(chan struct{}, *jobs)
	var wg sync.WaitGroup
	for i, t := range sel {
		wg.Add(1)
		go func(i int, t *target) {
			defer wg.Done()
			sem <- struct{}{}
			defer func() { <-sem }()
			res := result{ID: t.ID, Kind: t.Kind, Old: t.Old, New: t.New}
			overlay := map[string]string{}
			for file, offs := range t.Edits {
				overlay[file] = string(core.ApplyRename(readSrc(file), offs, t.Old, t.New))
			}
			of := filepath.Join(tmp, fmt.Sprintf("o%d.json", i))
			data, _ := json.Marshal(overlay)
			_ = os.WriteFile(of, data, 0o644)
			cmd := exec.Command(*lint, "-prop", "ALL", "-tier", "child", "-repo", *repo, "-overlay", of)
			outb, err := cmd.Output()
			_ = os.Remove(of)
			var co struct {
				Error      string                       `json:"error"`
				Violations map[string][]core.Obligation `json:"violations"`
			}
			lines := strings.Split(strings.TrimSpace(string(outb)), "\n")
			if len(outb) == 0 || json.Unmarshal([]byte(lines[len(lines)-1]), &co) != nil {
				res.Status, res.Detail = "error", fmt.Sprint(err)
				results[i] = res
				return
			}
			switch {
			case strings.Contains(co.Error, "does not type-check"):
				res.Status, res.Detail = "does-not-compile", co.Error
				if len(res.Detail) > 300 {
					res.Detail = res.Detail[:300]
				}
			case co.Error != "":
				res.Status, res.Detail = "error", co.Error
			case len(co.Violations) == 0:
				res.Status = "silent"
			default:
				res.Status = "alarm"
				res.Alarms = map[string][]string{}
				for prop, vs := range co.Violations {
					for _, v := range vs {
						how := v.How
						if len(how) > 160 {
							how = how[:160]
						}
						res.Alarms[prop] = append(res.Alarms[prop], fmt.Sprintf("[%s] %s: %s - %s", v.Rule, v.Func, v.Construct, how))
					}
				}
			}
			results[i] = res
		}(i, t)
	}
	wg.Wait()
	count := map[string]int{}
	for _, r := range results {
		count[r.Status]++
		if r.Status == "alarm" || r.Status == "error" {
			fmt.Printf("%s %s -> %s: %s %s\n", strings.ToUpper(r.Status), r.ID, r.New, r.Detail, "")
			props := make([]string, 0, len(r.Alarms))
			for p := range r.Alarms {
				props = append(props, p)
			}
			sort.Strings(props)
			for _, p := range props {
				for _, a := range r.Alarms[p] {
					fmt.Printf("    %s %s\n", p, a)
				}
			}
		}
	}
	fmt.Printf("renamesweep: %d renamings: %d silent, %d alarm, %d do not compile (skipped), %d error\n", len(results), count["silent"], count["alarm"], count["does-not-compile"], count["error"])
	if *outF != "" {
		data, _ := json.MarshalIndent(results, "", " ")
		_ = os.WriteFile(*outF, data, 0o644)
	}
	if count["alarm"]+count["error"] > 0 {
		os.Exit(1)
	}
}
