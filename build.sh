#!/bin/sh
# builds the checker offline with the pre-installed go1.26.8
set -e
cd "$(dirname "$0")/checker"
export PATH=/opt/veriftools/go1.26.8/bin:$PATH GOTOOLCHAIN=local GOFLAGS=-mod=mod GOPROXY=off GOSUMDB=off GOWORK=off
go build -o ../bin/gengolint ./cmd/gengolint
