#!/usr/bin/env python3
"""tools/claim.py <ID> <technique> <level_text> <level_note>  — add/update a claim and regenerate MANIFEST.json"""
import json, os, sys, subprocess
ROOT = os.path.dirname(os.path.dirname(os.path.abspath(__file__)))
p = os.path.join(ROOT, "tools", "claims.json")
c = json.load(open(p))
c[sys.argv[1]] = {"claimed": True, "technique": sys.argv[2], "level_text": sys.argv[3], "level_note": sys.argv[4]}
json.dump(dict(sorted(c.items())), open(p, "w"), indent=1, ensure_ascii=False)
subprocess.check_call([sys.executable, os.path.join(ROOT, "tools", "mkmanifest.py")])
