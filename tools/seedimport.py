#!/usr/bin/env python3
"""Imports externally produced seeded changes from /tmp/seed/<ID>/SEED/<X> into /verif/seeded/<ID>-<X>/ and
(re)computes which checks report them: applies the patch to /repo, runs every quick check, reverts."""
import json, os, re, shutil, subprocess, sys, glob
ROOT = os.path.dirname(os.path.dirname(os.path.abspath(__file__)))
def sh(cmd, **kw):
    return subprocess.run(cmd, shell=True, capture_output=True, text=True, **kw)
ids = sys.argv[1:] or sorted(os.path.basename(os.path.dirname(os.path.dirname(p))) + "/" + os.path.basename(p) for p in glob.glob("/tmp/seed/C*/SEED/[AB]"))
for item in ids:
    pid, x = item.split("/")
    src = f"/tmp/seed/{pid}/SEED/{x}"
    dst = os.path.join(ROOT, "seeded", f"{pid}-{x}")
    if os.path.isdir(src):
        os.makedirs(dst, exist_ok=True)
        for f in os.listdir(src):
            shutil.copy(os.path.join(src, f), os.path.join(dst, f))
    if not os.path.exists(os.path.join(dst, "patch.diff")):
        print("skip", item); continue
    assert sh("git -C /repo status --porcelain").stdout.strip() == "", "/repo not clean"
    r = sh(f"git -C /repo apply {dst}/patch.diff")
    if r.returncode != 0:
        print(item, "patch does not apply", r.stderr); continue
    caught = {}
    try:
        for i in range(1, 21):
            cid = "C%02d" % i
            out = sh(f"cd {ROOT} && ./check {cid} quick").stdout
            assert "checker build failed" not in out and ("quick:" in out or "VIOLATION" in out), "check did not run: " + out[:300]
            if "VIOLATION property=" in out:
                rules = sorted(set(re.findall(r"\[(C\d\d\.[A-Za-z0-9]+)\]", out)))
                caught[cid] = rules
    finally:
        sh("git -C /repo checkout -- .")
    meta_p = os.path.join(dst, "meta.json")
    meta = json.load(open(meta_p)) if os.path.exists(meta_p) else {}
    readme = open(os.path.join(dst, "README.md")).read() if os.path.exists(os.path.join(dst, "README.md")) else ""
    meta.update({
        "id": f"{pid}-{x}",
        "breaks_property": pid,
        "origin": "independent sub-agent given only the property text and a scratch worktree of /repo (nothing from /verif)",
        "needs_to_manifest": meta.get("needs_to_manifest") or "see README.md (written by the sub-agent)",
        "confirmed": meta.get("confirmed") or "tools/seedverify.sh in a scratch worktree: patch applies, `go build ./...` and the unedited suite pass with it, the demonstration fails with it and passes without it",
        "demonstration": [f for f in os.listdir(dst) if f.startswith("zz")],
        "reported_by_property_check": pid in caught,
        "reported_by": caught,
        "ran": f"git -C /repo apply seeded/{pid}-{x}/patch.diff; ./check <id> quick for all 20 ids; git -C /repo checkout -- .",
    })
    json.dump(meta, open(meta_p, "w"), indent=1)
    print(item, "own-check:", "CAUGHT" if pid in caught else "missed", caught)
# evidence of the last runs belongs to the mutated tree: regenerate on the clean tree
for i in range(1, 21):
    sh(f"cd {ROOT} && ./check C%02d quick" % i)
