#!/usr/bin/env python3
"""tools/mkrefactorprompts.py <prev-round-prompt-dir> <new-dir> <X> <Y> — derives the prompts of the next refactoring round
from the previous one: new worktrees <new-dir>/R1..R8, new letters, the titles of everything collected so far, new ideas."""
import os, re, subprocess, sys, glob
ROOT = os.path.dirname(os.path.dirname(os.path.abspath(__file__)))
prev, new, X, Y = sys.argv[1:5]
os.makedirs(new, exist_ok=True)
IDEAS = ("Ideas that have not been used much yet: turning the body of an iterator closure (`func(yield func(T) bool) { ... }`) into a method or named function that takes `yield`, or the reverse; "
 "replacing `if !yield(x) { return }` by `if ok := yield(x); !ok { return }` or by a small `emit` helper that reports whether to go on; replacing a range-over-func loop by calling the iterator with an explicit callback (or the reverse) where the early exits stay the same; "
 "replacing index arithmetic by sub-slices (`xs = xs[1:]` walking) or the reverse; hoisting `len(x)` / `x.Len()` into a local before a loop; replacing `make([]T, n)` + indexed stores by `make([]T, 0, n)` + append where provably the same; "
 "extracting the post-processing steps of a function (formatting, sorting, writing) into one unexported helper that receives the intermediate values; extracting the error-reporting block of a function into a helper; "
 "replacing a constant template string by a named constant, by the concatenation of two constants, or moving templates to the top of the file; replacing a `strings.Builder`/`bytes.Buffer` field access by a small unexported accessor method; "
 "replacing `x == nil` tests on an interface-typed field by an unexported predicate method, or the reverse; replacing an immediately invoked closure by straight-line code with a result variable; replacing several returns of a value by one result variable that is assigned on the branches; "
 "passing `x.Pos()` (or another pure getter result) through a local; merging two adjacent `case` clauses with identical bodies of a type switch over distinct types only when the body does not depend on the static type - otherwise leave them; "
 "replacing an `append`-collected `[]T` that is looped over afterwards by a work list consumed from the front (only where order and effects provably stay the same); replacing `defer f()` by an explicit call on every exit where there is exactly one exit. "
 "Do NOT add caches, memoisation or package-level variables.")
for n in range(1, 9):
    src = open(os.path.join(prev, f"R{n}.prompt")).read()
    m = re.search(r"/tmp/[a-z0-9]+/R%d" % n, src)
    olddir = m.group(0).rsplit("/", 1)[0]
    wt = f"{new}/R{n}"
    if not os.path.isdir(wt):
        subprocess.run(["git", "-C", "/repo", "worktree", "add", "-q", "--detach", wt, "HEAD"], check=True)
    letters = re.search(r"\(call them (\w) and (\w)\)", src)
    a, b = letters.group(1), letters.group(2)
    s = src.replace(olddir, new)
    s = s.replace(f"(call them {a} and {b})", f"(call them {X} and {Y})").replace(f"{a} and {b} should be", f"{X} and {Y} should be")
    s = s.replace("{%s, %s}" % (a, b), "{%s, %s}" % (X, Y)).replace(f"summary of {a} and {b}", f"summary of {X} and {Y}")
    # list of collected: append the previous round's two
    extra = []
    for letter in (a, b):
        rm = os.path.join(ROOT, "benign", f"R{n}-{letter}", "README.md")
        if os.path.exists(rm):
            extra.append("  - " + " ".join(open(rm).read().split())[:200])
    # drop the old idea paragraphs, insert after the last list entry
    lines = [l for l in s.split("\n") if not l.startswith("Ideas that have not been used much yet")]
    last = max(i for i, l in enumerate(lines) if l.startswith("  - "))
    lines[last+1:last+1] = extra + [IDEAS]
    s = "\n".join(lines)
    s = re.sub(r"\w+ refactorings of this area have already been collected", "Thirteen refactorings of this area have already been collected", s)
    open(f"{new}/R{n}.prompt", "w").write(s)
print("written", new)
