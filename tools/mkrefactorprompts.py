#!/usr/bin/env python3
"""tools/mkrefactorprompts.py <prev-round-prompt-dir> <new-dir> <X> <Y> — derives the prompts of the next refactoring round
from the previous one: new worktrees <new-dir>/R1..R8, new letters, the titles of everything collected so far, new ideas."""
import os, re, subprocess, sys, glob
ROOT = os.path.dirname(os.path.dirname(os.path.abspath(__file__)))
prev, new, X, Y = sys.argv[1:5]
os.makedirs(new, exist_ok=True)
IDEAS = ("Ideas that have not been used much yet: changing the SHAPE of a scanning loop without changing what it does (`for { if c == EOF { break } ... c = next() }` into `for c != EOF { ... c = next() }`, a `continue` into an if/else, a labelled loop) - take great care that every path still reads the next character exactly when it did before; "
 "moving one arm of a big `switch` (over a reflect kind, over an AST node type, over a verb character) into an unexported method or function of its own, or merging a small helper back into its only caller; "
 "in a function that renders a map or struct value: naming intermediate results, splitting the 'collect and order the keys' step from the 'write the entries' step into two helpers, replacing an index loop over fields by a range over an integer, replacing `bytes.Buffer` by `strings.Builder`; "
 "in iterator code: hoisting a repeated `if !yield(x) { return }` into a local closure that reports whether to go on, turning a range-over-func loop into an explicit callback call with the same early exits, or the reverse; "
 "replacing a small constructor's composite literal by field-by-field assignment to a local that is then returned, or the reverse; giving a one-line predicate or path/name helper a name (`isEmpty`, `sumPath(dir)`), or inlining such a helper; "
 "in a function with a local work list (`defers`, `pending`): renaming it, pre-sizing it, or consuming it with a range loop instead of an index loop; replacing `x == \"\"` by `len(x) == 0` or the reverse; "
 "replacing `slices.DeleteFunc(xs, pred)` by an explicit filtering loop that keeps the same elements, or the reverse; passing a package-level constant through a local. "
 "Do NOT add caches, memoisation or package-level variables, and do not change which characters, files, fields or types are processed.")
for n in range(1, 9):
    src = open(os.path.join(prev, f"R{n}.prompt")).read()
    m = re.search(r"/tmp/[a-z0-9]+/R%d" % n, src)
    olddir = m.group(0).rsplit("/", 1)[0]
    wt = f"{new}/R{n}"
    if not os.path.isdir(wt):
        subprocess.run(["git", "-C", "/repo", "worktree", "add", "-q", "--detach", wt, "HEAD"], check=True)
    letters = re.search(r"\(call them (\w) and (\w)\)", src)
    a, b = letters.group(1), letters.group(2)
    s = src.replace(olddir, new)
    s = s.replace(f"(call them {a} and {b})", f"(call them {X} and {Y})").replace(f"{a} and {b} should be", f"{X} and {Y} should be")
    s = s.replace("{%s, %s}" % (a, b), "{%s, %s}" % (X, Y)).replace(f"summary of {a} and {b}", f"summary of {X} and {Y}")
    # list of collected: append the previous round's two
    extra = []
    for letter in (a, b):
        rm = os.path.join(ROOT, "benign", f"R{n}-{letter}", "README.md")
        if os.path.exists(rm):
            extra.append("  - " + " ".join(open(rm).read().split())[:200])
    # drop the old idea paragraphs, insert after the last list entry
    lines = [l for l in s.split("\n") if not l.startswith("Ideas that have not been used much yet")]
    last = max(i for i, l in enumerate(lines) if l.startswith("  - "))
    lines[last+1:last+1] = extra + [IDEAS]
    s = "\n".join(lines)
    s = re.sub(r"\w+ refactorings of this area have already been collected", "Fifteen refactorings of this area have already been collected", s)
    open(f"{new}/R{n}.prompt", "w").write(s)
print("written", new)
