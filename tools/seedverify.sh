#!/bin/sh
# tools/seedverify.sh <seeddir> <demo test file> <pkg dir rel> <test name>
# verifies an externally produced seeded change in a scratch worktree:
#   with the patch: build + existing tests pass, demo fails; without: demo passes.
set -u
SEED=$1; DEMO=$2; PKG=$3; TEST=$4
WT=$(mktemp -d /tmp/seedverify.XXXXXX)
git -C /repo worktree add -q --detach "$WT" HEAD || exit 2
cd "$WT" || exit 2
export GOFLAGS=-mod=mod GOPROXY=off
res=""
cp "$DEMO" "$PKG/zz_seed_test.go"
if go test -vet=off -count=1 -run "$TEST" "./$PKG/" >/tmp/seedverify.clean.log 2>&1; then res="$res demo-passes-on-clean=yes"; else res="$res demo-passes-on-clean=NO"; fi
rm "$PKG/zz_seed_test.go"
if git apply "$SEED/patch.diff"; then res="$res applies=yes"; else res="$res applies=NO"; fi
if go build ./... >/dev/null 2>&1; then res="$res builds=yes"; else res="$res builds=NO"; fi
if go test -vet=off -count=1 ./... >/tmp/seedverify.suite.log 2>&1; then res="$res suite-passes=yes"; else res="$res suite-passes=NO"; fi
cp "$DEMO" "$PKG/zz_seed_test.go"
if go test -vet=off -count=1 -run "$TEST" "./$PKG/" >/tmp/seedverify.mut.log 2>&1; then res="$res demo-fails-with-patch=NO"; else res="$res demo-fails-with-patch=yes"; fi
cd /; git -C /repo worktree remove --force "$WT"
echo "$res"
