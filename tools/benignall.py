#!/usr/bin/env python3
"""Runs every quick check against every behaviour-preserving refactoring in /verif/benign/*/patch.diff
(applied to /repo, reverted afterwards) and records the alarms (= false alarms) in meta.json."""
import json, os, re, subprocess, sys, glob
ROOT = os.path.dirname(os.path.dirname(os.path.abspath(__file__)))
def sh(cmd): return subprocess.run(cmd, shell=True, capture_output=True, text=True)
items = sys.argv[1:] or sorted(os.path.basename(os.path.dirname(p)) for p in glob.glob(os.path.join(ROOT, "benign/*/patch.diff")))
tot = 0
for it in items:
    d = os.path.join(ROOT, "benign", it)
    assert sh("git -C /repo status --porcelain").stdout.strip() == "", "/repo not clean"
    r = sh(f"git -C /repo apply {d}/patch.diff")
    if r.returncode != 0:
        r = sh(f"git -C /repo apply -3 {d}/patch.diff")
    if r.returncode != 0:
        print(it, "DOES NOT APPLY"); sh("git -C /repo reset -q --hard HEAD"); continue
    alarms = {}
    try:
        b = sh("cd /repo && GOFLAGS=-mod=mod GOPROXY=off go build ./...")
        if b.returncode != 0:
            print(it, "DOES NOT BUILD"); continue
        for i in range(1, 21):
            cid = "C%02d" % i
            out = sh(f"cd {ROOT} && ./check {cid} quick").stdout
            assert "checker build failed" not in out and ("quick:" in out or "VIOLATION" in out), "check did not run: " + out[:300]
            if "VIOLATION property=" in out:
                alarms[cid] = [l[:300] for l in out.splitlines() if re.search(r"\[C\d\d\.", l) and not l.startswith("KNOWN")][:6]
    finally:
        sh("git -C /repo reset -q --hard HEAD")
    meta = {"id": it, "kind": "behaviour-preserving refactoring produced by an independent sub-agent (area prompt only, nothing from /verif)", "alarms": alarms,
            "ran": "git -C /repo apply benign/%s/patch.diff; ./check <id> quick for all ids; git -C /repo reset --hard" % it}
    json.dump(meta, open(os.path.join(d, "meta.json"), "w"), indent=1)
    tot += 1 if alarms else 0
    print(it, "silent" if not alarms else "ALARMS " + ",".join(sorted(alarms)))
print("refactorings with alarms:", tot, "of", len(items))
for i in range(1, 21):
    sh(f"cd {ROOT} && ./check C%02d quick" % i)
