#!/bin/sh
# tools/benignimport.sh <round-dir> <Rn> <X>...: stores <round-dir>/<Rn>/SEED/<X>/{patch.diff,README.md} as benign/<Rn>-<X>/ and confirms it with tools/benignverify.sh
rd=$1; rn=$2; shift 2
for x in "$@"; do
  src=$rd/$rn/SEED/$x; dst=/verif/benign/$rn-$x
  [ -f $src/patch.diff ] || { echo "$rn-$x: no patch"; continue; }
  mkdir -p $dst; cp $src/patch.diff $src/README.md $dst/ 2>/dev/null
  [ -f $dst/meta.json ] || printf '{\n "id": "%s",\n "kind": "benign"\n}\n' "$rn-$x" > $dst/meta.json
  /verif/tools/benignverify.sh $rn-$x 2>&1 | tail -1
done
