#!/bin/sh
# tools/benignverify.sh <benign item>...  — confirms that the module builds, vets and passes its unedited suite with the refactoring applied
for it in "$@"; do
  WT=$(mktemp -d /tmp/benignverify.XXXXXX)
  git -C /repo worktree add -q --detach "$WT" HEAD || exit 2
  ( cd "$WT" && git apply /verif/benign/$it/patch.diff && export GOFLAGS=-mod=mod GOPROXY=off && go build ./... && go vet ./... >/dev/null 2>&1 && go test -vet=off -count=1 ./... >/dev/null 2>&1 && echo "$it suite=ok" || echo "$it suite=FAILED" )
  git -C /repo worktree remove --force "$WT"
done
