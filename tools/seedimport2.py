#!/usr/bin/env python3
"""tools/seedimport2.py <round-dir> <ID> <X> [<pkgdir> <TestName>]
Confirms an externally produced breaking change (<round-dir>/<ID>/SEED/<X>/) with tools/seedverify.sh in a scratch
worktree and, if confirmed, stores it as seeded/<ID>-<X>/ (patch.diff, demonstration, README.md, meta.json).
pkgdir / TestName are guessed from the README when omitted."""
import json, os, re, shutil, subprocess, sys, glob
ROOT = os.path.dirname(os.path.dirname(os.path.abspath(__file__)))
rd, pid, x = sys.argv[1:4]
src = f"{rd}/{pid}/SEED/{x}"
readme = open(f"{src}/README.md").read() if os.path.exists(f"{src}/README.md") else ""
demos = [f for f in os.listdir(src) if f.startswith("zz") or f.endswith("_test.go") or f.endswith("_test.go.txt")]
if len(sys.argv) >= 6:
    pkg, test = sys.argv[4:6]
else:
    m = re.search(r"((?:pkg|devpkg)/[\w/]+)/zz\w*_test\.go", readme)
    t = re.search(r"-run[ =]+'?\^?(Test\w+)", readme)
    if not (m and t and demos):
        print(pid, x, "cannot guess demo placement; demos:", demos); sys.exit(2)
    pkg, test = m.group(1), t.group(1)
demo = os.path.join(src, demos[0])
r = subprocess.run([os.path.join(ROOT, "tools/seedverify.sh"), src, demo, pkg, test], capture_output=True, text=True)
res = r.stdout.strip()
print(pid, x, pkg, test, "=>", res)
ok = all(k in res for k in ("demo-passes-on-clean=yes", "applies=yes", "builds=yes", "suite-passes=yes", "demo-fails-with-patch=yes"))
if not ok:
    sys.exit(1)
dst = os.path.join(ROOT, "seeded", f"{pid}-{x}")
os.makedirs(dst, exist_ok=True)
for f in os.listdir(src):
    if os.path.isfile(os.path.join(src, f)) and f != "go.mod":
        shutil.copy(os.path.join(src, f), os.path.join(dst, f if not f.endswith(".go") else f + ".txt"))
head = subprocess.run("git -C /repo rev-parse --short HEAD", shell=True, capture_output=True, text=True).stdout.strip()
meta = {"id": f"{pid}-{x}", "breaks_property": pid,
        "origin": "independent sub-agent given only the property text (plus one-line titles of the two changes already collected, to force a different kind) and a scratch worktree of /repo; nothing from /verif",
        "needs_to_manifest": "see README.md (written by the sub-agent)",
        "base": head,
        "confirmed": f"tools/seedverify.sh in a scratch worktree of /repo at {head}: {res} (demonstration placed in {pkg}, run with -run {test})",
        "demonstration": [f for f in os.listdir(dst) if f.startswith("zz")]}
json.dump(meta, open(os.path.join(dst, "meta.json"), "w"), indent=1)
