#!/bin/sh
# tools/refcheck.sh <patch.diff> : applies a behaviour-preserving refactoring to /repo, runs all quick checks, reverts; prints alarms (= false alarms)
P=$1
cd /verif || exit 2
git -C /repo apply "$P" 2>/dev/null || git -C /repo apply -3 "$P" 2>/dev/null || { echo "patch does not apply: $P"; git -C /repo checkout -- . ; exit 2; }
n=0
for i in 01 02 03 04 05 06 07 08 09 10 11 12 13 14 15 16 17 18 19 20; do
	out=$(./check C$i quick 2>&1)
	if echo "$out" | grep -q "^VIOLATION"; then n=$((n+1)); echo "== C$i: ALARM"; echo "$out" | grep -v "^KNOWN\|^VIOLATION\|quick:" | cut -c1-420 | head -6; fi
done
echo "alarms: $n"
git -C /repo reset -q --hard HEAD
git -C /repo status --short | head -3
