#!/usr/bin/env python3
"""Runs every quick check against every seeded breaking change (seeded/*/patch.diff) and every
behaviour-preserving refactoring (benign/*/patch.diff), each in its own scratch worktree of /repo
(outside /repo and /verif, removed afterwards), in parallel, and records the result in the item's meta.json.

    tools/regress.py [seeded|benign|all] [ITEM...]

Nothing here is registered in MANIFEST.json; it is the regression harness for the checker itself."""
import json, os, re, shutil, subprocess, sys, glob, tempfile
from concurrent.futures import ThreadPoolExecutor
ROOT = os.path.dirname(os.path.dirname(os.path.abspath(__file__)))
ENV = dict(os.environ)
def sh(cmd, **kw): return subprocess.run(cmd, shell=True, capture_output=True, text=True, env=ENV, **kw)

def run_item(kind, item):
    d = os.path.join(ROOT, kind, item)
    tmp = tempfile.mkdtemp(prefix="rg-", dir=os.environ.get("REGRESS_TMP", "/tmp"))
    wt, vf = os.path.join(tmp, "repo"), os.path.join(tmp, "verif")
    res = {"item": item, "kind": kind, "status": "ok", "reported": {}}
    try:
        r = sh(f"git -C /repo worktree add -q --detach {wt} HEAD")
        if r.returncode != 0:
            res["status"] = "worktree failed: " + r.stderr[:200]; return res
        r = sh(f"git -C {wt} apply {d}/patch.diff")
        if r.returncode != 0:
            r = sh(f"git -C {wt} apply -3 {d}/patch.diff")
        if r.returncode != 0:
            res["status"] = "DOES NOT APPLY"; return res
        b = sh(f"cd {wt} && GOFLAGS=-mod=mod GOPROXY=off go build ./...", )
        if b.returncode != 0:
            res["status"] = "DOES NOT BUILD"; return res
        os.makedirs(os.path.join(vf, "evidence")); os.makedirs(os.path.join(vf, "replay"))
        shutil.copy(os.path.join(ROOT, "known_findings.json"), vf)
        for i in range(1, 21):
            cid = "C%02d" % i
            pr = sh(f"{ROOT}/bin/gengolint -verif {vf} -repo {wt} -prop {cid} -tier quick")
            out = pr.stdout
            if not ("quick:" in out or "VIOLATION" in out):
                res["status"] = f"CHECKER CRASH in {cid}: " + (pr.stderr or out)[-600:]; return res
            if "VIOLATION property=" in out:
                res["reported"][cid] = {"rules": sorted(set(re.findall(r"\[(C\d\d\.[A-Za-z0-9]+)\]", out))),
                                        "lines": [l[:300] for l in out.splitlines() if re.search(r"\[C\d\d\.", l) and not l.startswith("KNOWN")][:6]}
    finally:
        sh(f"git -C /repo worktree remove --force {wt}")
        shutil.rmtree(tmp, ignore_errors=True)
    return res

def main():
    args = sys.argv[1:]
    which = args[0] if args and args[0] in ("seeded", "benign", "all") else "all"
    only = [a for a in args if a not in ("seeded", "benign", "all")]
    assert sh(f"cd {ROOT} && ./build.sh").returncode == 0, "checker build failed"
    jobs = []
    for kind in ("seeded", "benign"):
        if which not in (kind, "all"):
            continue
        for p in sorted(glob.glob(os.path.join(ROOT, kind, "*", "patch.diff"))):
            item = os.path.basename(os.path.dirname(p))
            if not only or item in only:
                jobs.append((kind, item))
    with ThreadPoolExecutor(max_workers=int(os.environ.get("REGRESS_JOBS", "6"))) as ex:
        results = list(ex.map(lambda j: run_item(*j), jobs))
    if not os.environ.get("REGRESS_NOPRUNE"):
        sh("git -C /repo worktree prune")
    head = sh("git -C /repo rev-parse --short HEAD").stdout.strip()
    missed, alarms, broken = [], [], []
    for res in results:
        d = os.path.join(ROOT, res["kind"], res["item"])
        meta_p = os.path.join(d, "meta.json")
        meta = json.load(open(meta_p)) if os.path.exists(meta_p) else {}
        if res["status"] != "ok":
            broken.append((res["item"], res["status"]))
            meta["last_run"] = {"repo_head": head, "status": res["status"]}
            json.dump(meta, open(meta_p, "w"), indent=1)
            print(res["item"], res["status"]); continue
        rules = {k: v["rules"] for k, v in res["reported"].items()}
        if res["kind"] == "seeded":
            pid = res["item"].split("-")[0]
            meta.update({"id": res["item"], "breaks_property": pid, "reported_by_property_check": pid in rules, "reported_by": rules,
                         "ran": "tools/regress.py: scratch worktree of /repo at %s + patch.diff; bin/gengolint -tier quick for all 20 ids" % head})
            meta.pop("last_run", None)
            if pid not in rules: missed.append(res["item"])
            print(res["item"], "own-check:", "CAUGHT" if pid in rules else "MISSED", rules)
        else:
            meta = {"id": res["item"], "kind": "behaviour-preserving refactoring produced by an independent sub-agent (area prompt only, nothing from /verif)",
                    "alarms": {k: v["lines"] for k, v in res["reported"].items()},
                    "ran": "tools/regress.py: scratch worktree of /repo at %s + patch.diff; bin/gengolint -tier quick for all 20 ids" % head}
            if rules: alarms.append(res["item"])
            print(res["item"], "silent" if not rules else "ALARMS " + ",".join(sorted(rules)))
        json.dump(meta, open(meta_p, "w"), indent=1)
    print("seeded missed by own check:", missed)
    print("benign with alarms:", alarms)
    print("not evaluated:", broken)

main()
