#!/usr/bin/env python3
"""tools/mkseedprompts.py <round-dir> <X> <Y>  — writes <round-dir>/<ID>.prompt for every property: the text given to a fresh
sub-agent (property text, titles of the changes already collected, a scratch worktree; nothing from /verif) that is asked
for two further breaking changes X and Y. The worktrees <round-dir>/<ID> are created here as well."""
import json, os, subprocess, sys, glob
ROOT = os.path.dirname(os.path.dirname(os.path.abspath(__file__)))
rd, X, Y = sys.argv[1:4]
os.makedirs(rd, exist_ok=True)
template = open(os.path.join(ROOT, "notes/agent-prompts/round4/C01.prompt")).read()
head, tail = template.split("Your task: produce TWO")[0], template.split("How to build and test inside the worktree")[1]
for line in open(os.path.join(ROOT, "properties.jsonl")):
    p = json.loads(line)
    pid = p["id"]
    wt = f"{rd}/{pid}"
    if not os.path.isdir(wt):
        subprocess.run(["git", "-C", "/repo", "worktree", "add", "-q", "--detach", wt, "HEAD"], check=True)
    prev = []
    for d in sorted(glob.glob(os.path.join(ROOT, "seeded", pid + "-*"))):
        letter = d.rsplit("-", 1)[1]
        rm = os.path.join(d, "README.md")
        txt = " ".join(open(rm).read().split())[:330] if os.path.exists(rm) else ""
        prev.append(f"  - (Seed {letter}) {txt}")
    intro = (f"You are helping to evaluate a verification tool by planting realistic bugs. You work ONLY inside the scratch git worktree {wt} (a checkout of the Go module github.com/octohelm/gengo, a Go code-generation framework). "
             f"Do NOT read or write anything under /verif, /repo, /root/.claude or /root/.vp, and do not look at other directories under {rd} than your own.\n\n"
             "The module has this semantic property that is supposed to hold:\n\n"
             f"{pid}: {p['title']}\n\nStatement: {p['statement']}\n\nQuantified over: {p['quantifier']['text']}\n\n\n")
    task = (f"Your task: produce TWO independent, alternative source changes (call them {X} and {Y}) to the NON-TEST library code of the module (under pkg/ or devpkg/), each of which BREAKS this property, while\n"
            "  (1) the module still compiles (`go build ./...`), and\n"
            "  (2) the module's existing test-suite still passes unchanged (`go test ./...`), and\n"
            "  (3) the breakage needs something specific to manifest - a particular unusual input, a particular combination/sequence of operations, a fault at a particular point, a particular map-iteration order, or two cooperating sites that each look fine on their own - NOT something that ordinary use would expose at once. "
            f"Make the change look like a plausible refactoring, optimisation, \"cleanup\" or small feature a developer might really commit; keep it small (a few lines to ~25 lines). {X} and {Y} should break the property in DIFFERENT ways / at different places.\n\n"
            f"{len(prev)} other breaking changes have already been collected for this property; yours must differ from all of them in kind AND in place (another function, another clause of the property, another mechanism):\n"
            + "\n".join(prev) + "\n"
            "Read the property statement clause by clause and look for a clause, an input class or a code path none of them touches. Also consider changes OUTSIDE the obvious functions: a helper or accessor the property's code path relies on (also in another package of the module), an option or default that changes which path is taken, an initialisation order, a value that is reused where a fresh one was made, a slice or map that is aliased instead of copied, an error or sentinel that is converted on the way up, a comparison that uses a slightly different key, a cache that is consulted with a coarser key, a loop that stops one element early, a branch that handles a rarely used kind of declaration or type (aliases, generics, embedded fields, unnamed/blank identifiers, grouped declarations, cgo/test files). "
            "Subtle is better than blunt: a change that keeps all the obvious structure (same calls, same guards in the same places) and breaks the property through a wrong constant, a wrong operand, an off-by-one, a swapped argument, a condition that is almost equivalent, a changed default, or an interaction between two functions is especially welcome. "
            "A change that ADDS a small plausible feature or fast path (a cache, a shortcut for a common case, an extra option with a harmless-looking default) and thereby breaks the property for the uncommon case is welcome too.\n\n")
    body = intro + task + "How to build and test inside the worktree" + tail.replace("/tmp/seed7/C01", wt).replace("{G, H}", "{%s, %s}" % (X, Y)).replace("summary of G and H", f"summary of {X} and {Y}")
    open(f"{rd}/{pid}.prompt", "w").write(body)
print("prompts written to", rd)
