#!/bin/sh
# tools/rebase_patch.sh <seeded|benign>/<item> — re-creates patch.diff against /repo's HEAD after a fix: commit touched
# its context: 3-way apply in a scratch worktree, build, write the diff back. Conflicts are reported, not resolved.
set -u
D=/verif/$1
WT=$(mktemp -d /tmp/rebase.XXXXXX)
git -C /repo worktree add -q --detach "$WT" HEAD || exit 2
cd "$WT" || exit 2
if git apply "$D/patch.diff" 2>/dev/null; then echo "$1: applies as is"; cd /; git -C /repo worktree remove --force "$WT"; exit 0; fi
if ! git apply -3 "$D/patch.diff" >/dev/null 2>&1; then echo "$1: CONFLICT"; cd /; git -C /repo worktree remove --force "$WT"; exit 1; fi
if ! GOFLAGS=-mod=mod GOPROXY=off go build ./... ; then echo "$1: does not build after 3-way"; cd /; git -C /repo worktree remove --force "$WT"; exit 1; fi
git add -A; git diff --cached HEAD > "$D/patch.diff"
echo "$1: rebased"
cd /; git -C /repo worktree remove --force "$WT"
