#!/bin/sh
# tools/seedverify_main.sh <seeddir>   — like seedverify.sh for a demonstration that is a `package main` program (main.go),
# placed as zz_seed_demo/main.go inside a scratch worktree and run with `go run ./zz_seed_demo`.
set -u
SEED=$1
WT=$(mktemp -d /tmp/seedverify.XXXXXX)
git -C /repo worktree add -q --detach "$WT" HEAD || exit 2
cd "$WT" || exit 2
export GOFLAGS=-mod=mod GOPROXY=off
res=""
mkdir zz_seed_demo && cp "$SEED/main.go" zz_seed_demo/main.go
if go run ./zz_seed_demo >/tmp/seedverify.clean.log 2>&1; then res="$res demo-passes-on-clean=yes"; else res="$res demo-passes-on-clean=NO"; fi
rm -rf zz_seed_demo
if git apply "$SEED/patch.diff"; then res="$res applies=yes"; else res="$res applies=NO"; fi
if go build ./... >/dev/null 2>&1; then res="$res builds=yes"; else res="$res builds=NO"; fi
if go test -vet=off -count=1 ./... >/tmp/seedverify.suite.log 2>&1; then res="$res suite-passes=yes"; else res="$res suite-passes=NO"; fi
mkdir zz_seed_demo && cp "$SEED/main.go" zz_seed_demo/main.go
if go run ./zz_seed_demo >/tmp/seedverify.mut.log 2>&1; then res="$res demo-fails-with-patch=NO"; else res="$res demo-fails-with-patch=yes"; fi
cd /; git -C /repo worktree remove --force "$WT"
echo "$res"
