#!/bin/sh
# tools/seedcheck.sh <patch.diff> [ids...]  — applies a seeded change to /repo, runs the quick checks, reverts.
P=$1; shift
cd /verif || exit 2
git -C /repo apply "$P" || { echo "patch does not apply"; exit 2; }
IDS=${*:-C01 C02 C03 C04 C05 C06 C07 C08 C09 C10 C11 C12 C13 C14 C15 C16 C17 C18 C19 C20}
for id in $IDS; do
	out=$(./check $id quick 2>&1)
	if echo "$out" | grep -q "^VIOLATION"; then echo "== $id: VIOLATION"; echo "$out" | grep -v "^KNOWN\|^VIOLATION\|quick:" | cut -c1-330 | head -5; else echo "== $id: silent"; fi
done
git -C /repo checkout -- .
git -C /repo status --short | head -3
