#!/bin/sh
# Warms the go build cache with the export data of gengo's dependencies (needed
# by go/packages when type-checking the library packages from source).
cd "$(dirname "$0")/.." || exit 1
export PATH=/opt/veriftools/go1.26.8/bin:$PATH GOTOOLCHAIN=local GOFLAGS=-mod=mod GOPROXY=off GOSUMDB=off GOWORK=off
(cd "${VERIF_REPO:-/repo}" && go list -export -deps ./... >/dev/null 2>&1) || true
exit 0
