#!/bin/bash
# tools/showseed.sh <kind/item> <PROP>...: prints what the quick check of PROP says about a stored change (scratch worktree, removed afterwards)
item=$1; shift
t=$(mktemp -d /tmp/ss-XXXXXX)
git -C /repo worktree add -q --detach $t/repo HEAD || exit 2
git -C $t/repo apply /verif/$item/patch.diff || { echo "does not apply"; }
mkdir -p $t/verif/evidence $t/verif/replay; cp /verif/known_findings.json $t/verif/
for p in "$@"; do /verif/bin/gengolint -verif $t/verif -repo $t/repo -prop $p -tier quick 2>&1 | grep -v "^  ok" | cut -c1-700 | head -${LINES_MAX:-30}; done
git -C /repo worktree remove --force $t/repo; rm -rf $t
