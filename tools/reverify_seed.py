#!/usr/bin/env python3
"""tools/reverify_seed.py ITEM...: re-runs tools/seedverify.sh for stored seeded changes (after a rebase of patch.diff onto a
new /repo HEAD) using the demonstration placement recorded in meta.json; updates meta 'base'/'confirmed' when confirmed."""
import json, os, re, subprocess, sys
ROOT = os.path.dirname(os.path.dirname(os.path.abspath(__file__)))
head = subprocess.run("git -C /repo rev-parse --short HEAD", shell=True, capture_output=True, text=True).stdout.strip()
for item in sys.argv[1:]:
    d = os.path.join(ROOT, "seeded", item)
    meta = json.load(open(os.path.join(d, "meta.json")))
    m = re.search(r"placed in ([\w/]+), run with -run (\w+)", meta.get("confirmed", ""))
    demos = meta.get("demonstration") or [f for f in os.listdir(d) if f.startswith("zz")]
    if not m or not demos:
        print(item, "no placement recorded:", meta.get("confirmed", "")[:120]); continue
    pkg, test = m.group(1), m.group(2)
    r = subprocess.run([os.path.join(ROOT, "tools/seedverify.sh"), d, os.path.join(d, demos[0]), pkg, test], capture_output=True, text=True)
    res = r.stdout.strip()
    ok = all(k in res for k in ("demo-passes-on-clean=yes", "applies=yes", "builds=yes", "suite-passes=yes", "demo-fails-with-patch=yes"))
    print(item, "OK" if ok else "NOT CONFIRMED", res)
    if ok:
        meta["base"] = head
        meta["confirmed"] = f"tools/seedverify.sh in a scratch worktree of /repo at {head}: {res} (demonstration placed in {pkg}, run with -run {test})"
        json.dump(meta, open(os.path.join(d, "meta.json"), "w"), indent=1)
