#!/bin/sh
# validates MANIFEST.json and all evidence files against the schemas
cd "$(dirname "$0")/.." || exit 1
python3-vt - <<'PY'
import json,jsonschema,glob,sys
jsonschema.validate(json.load(open('MANIFEST.json')),json.load(open('/root/.vp/MANIFEST.schema.json')))
s=json.load(open('/root/.vp/EVIDENCE.schema.json'))
n=0
for f in sorted(glob.glob('evidence/C*.json')):
    jsonschema.validate(json.load(open(f)),s); n+=1
print('manifest ok;',n,'evidence files ok')
PY
