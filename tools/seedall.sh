#!/bin/sh
# tools/seedall.sh <ID> <X> : verify seed /tmp/seed/<ID>/SEED/<X>, run the property's check (and all quick checks) against it
ID=$1; X=$2
S=/tmp/seed/$ID/SEED/$X
DEMO=$(ls $S/zz*test.go* 2>/dev/null | head -1)
PKG=$(grep -o '\(pkg\|devpkg\)/[a-z/]*/zz_[a-z_]*\.go' $S/README.md | head -1 | xargs dirname)
TEST=$(grep -o 'TestSeed[A-Za-z_0-9]*' $S/README.md | head -1)
echo "### $ID/$X demo=$DEMO pkg=$PKG test=$TEST"
/verif/tools/seedverify.sh $S $DEMO $PKG "$TEST"
/verif/tools/seedcheck.sh $S/patch.diff | grep -A4 VIOLATION | cut -c1-300
