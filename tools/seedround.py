#!/usr/bin/env python3
"""tools/seedround.py <round-dir> <X> <Y> [ID...] - confirms and imports the seeded changes of one round.

For every <round-dir>/<ID>/SEED/<X|Y>: finds the demonstration (zz*test.go*), the package directory it has to be placed
in (from README.md) and its test functions, confirms the change with tools/seedverify.sh in a scratch worktree (patch
applies, module builds, unedited suite passes, demonstration fails with the patch and passes without), and stores it as
seeded/<ID>-<X>/ with a meta.json. Unconfirmed changes are reported and not stored. Runs several confirmations at once."""
import json, os, re, shutil, subprocess, sys, glob
from concurrent.futures import ThreadPoolExecutor
ROOT = os.path.dirname(os.path.dirname(os.path.abspath(__file__)))
rd, X, Y = sys.argv[1:4]
ids = sys.argv[4:] or sorted(os.path.basename(p) for p in glob.glob(rd + "/C[0-9][0-9]"))
head = subprocess.run("git -C /repo rev-parse --short HEAD", shell=True, capture_output=True, text=True).stdout.strip()

def one(item):
    pid, x = item
    src = f"{rd}/{pid}/SEED/{x}"
    if not os.path.exists(src + "/patch.diff"):
        return item, "no patch", None
    demos = sorted(glob.glob(src + "/zz*test.go*")) or sorted(glob.glob(src + "/*_test.go*"))
    if not demos:
        return item, "no demonstration test file", None
    demo = demos[0]
    readme = open(src + "/README.md").read() if os.path.exists(src + "/README.md") else ""
    m = re.search(r"((?:pkg|devpkg)/[A-Za-z0-9_/]*?)/zz_[a-z_]*test\.go", readme)
    pkg = m.group(1) if m else None
    if not pkg:
        m = re.search(r"\./((?:pkg|devpkg)/[A-Za-z0-9_/]+?)/?[\s`'\"]", readme)
        pkg = m.group(1) if m else None
    if not pkg:
        return item, "cannot find the package directory of the demonstration in README.md", None
    tests = re.findall(r"^func (Test\w+)\(", open(demo).read(), re.M)
    if not tests:
        return item, "no test function in demonstration", None
    run = "^(" + "|".join(tests) + ")$"
    r = subprocess.run([ROOT + "/tools/seedverify.sh", src, demo, pkg, run], capture_output=True, text=True)
    res = r.stdout.strip().splitlines()[-1] if r.stdout.strip() else r.stderr.strip()[-300:]
    ok = all(k in res for k in ("demo-passes-on-clean=yes", "applies=yes", "builds=yes", "suite-passes=yes", "demo-fails-with-patch=yes"))
    if ok:
        dst = os.path.join(ROOT, "seeded", f"{pid}-{x}")
        os.makedirs(dst, exist_ok=True)
        for f in os.listdir(src):
            if os.path.isfile(os.path.join(src, f)):
                shutil.copy(os.path.join(src, f), os.path.join(dst, f))
        meta = {"id": f"{pid}-{x}", "breaks_property": pid,
                "origin": "independent sub-agent given only the property text (plus short descriptions of the changes already collected for it, to force a different kind and place) and a scratch worktree of /repo; nothing from /verif",
                "needs_to_manifest": "see README.md (written by the sub-agent)", "base": head,
                "confirmed": f"tools/seedverify.sh in a scratch worktree of /repo at {head}: {res} (demonstration placed in {pkg}, run with -run '{run}')",
                "demonstration": [os.path.basename(d) for d in demos]}
        json.dump(meta, open(os.path.join(dst, "meta.json"), "w"), indent=1)
    return item, res, ok

items = [(pid, x) for pid in ids for x in (X, Y)]
with ThreadPoolExecutor(max_workers=int(os.environ.get("SEED_JOBS", "6"))) as ex:
    for item, res, ok in ex.map(one, items):
        print(f"{item[0]}-{item[1]}: {'CONFIRMED' if ok else 'NOT CONFIRMED'} {res}", flush=True)
