#!/usr/bin/env python3
"""tools/finding.py <property> <rule> <key> <what_fails> <status>  — append an entry to known_findings.json (development-time only)"""
import json, os, sys
ROOT = os.path.dirname(os.path.dirname(os.path.abspath(__file__)))
p = os.path.join(ROOT, "known_findings.json")
d = json.load(open(p))
d["findings"].append({"property": sys.argv[1], "rule": sys.argv[2], "key": sys.argv[3], "what_fails": sys.argv[4], "status": sys.argv[5]})
json.dump(d, open(p, "w"), indent=1, ensure_ascii=False)
