#!/usr/bin/env python3
"""tools/refresh_counts.py — refreshes the counts DESIGN.md quotes from the evidence files and the catalogue:
per-property headers `(obligations[, n reviewed][, n known]; breaking+benign)`, and prints the totals for section 0."""
import json, re, os, glob
ROOT = os.path.dirname(os.path.dirname(os.path.abspath(__file__)))
p = os.path.join(ROOT, "DESIGN.md")
s = open(p).read()
tb = tn = rules = ob_t = rv_t = kn_t = 0
for i in range(1, 21):
    pid = f"C{i:02d}"
    cov = json.load(open(os.path.join(ROOT, "evidence", pid + ".json")))["coverage"]
    n = lambda x: x if isinstance(x, int) else len(x)
    ob, rv, kn = n(cov["obligations"]), n(cov["discharged_by_review"]), n(cov["known"])
    m = json.load(open(os.path.join(ROOT, "mutants", pid + ".json")))
    b = sum(1 for x in m if x["kind"] == "breaking"); g = sum(1 for x in m if x["kind"] == "benign")
    tb += b; tn += g; ob_t += ob; rv_t += rv; kn_t += kn; rules += len(cov["floors"])
    parts = [str(ob)] + ([f"{rv} reviewed"] if rv else []) + ([f"{kn} known"] if kn else [])
    new = f"({', '.join(parts)}; {b}+{g})"
    pat = re.compile(r"^(### " + pid + r" — .*?) \([^()]*; \d+\+\d+\)$", re.M)
    assert pat.search(s), pid
    s = pat.sub(lambda mo: mo.group(1) + " " + new, s, 1)
open(p, "w").write(s)
loc = sum(len(open(f).read().splitlines()) for f in glob.glob(os.path.join(ROOT, "checker", "**", "*.go"), recursive=True))
print(f"rules(with floors)={rules} obligations={ob_t} reviewed={rv_t} known={kn_t} catalogue breaking={tb} benign={tn} checker_loc={loc} seeded={len(os.listdir(os.path.join(ROOT,'seeded')))} benign_corpus={len(os.listdir(os.path.join(ROOT,'benign')))}")
