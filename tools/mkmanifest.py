#!/usr/bin/env python3
"""Regenerates /verif/MANIFEST.json from the table below (kept valid at all times)."""
import json, os, sys
ROOT = os.path.dirname(os.path.dirname(os.path.abspath(__file__)))
props = [json.loads(l) for l in open(os.path.join(ROOT, "properties.jsonl"))]
meta = json.load(open(os.path.join(ROOT, "tools", "claims.json")))
checks, na = [], []
for p in props:
    pid = p["id"]
    m = meta.get(pid)
    if not m or not m.get("claimed"):
        na.append({"property_id": pid, "reason": (m or {}).get("reason", "no static rule implemented yet in this build; see DESIGN.md section 3 for the planned structural clauses")})
        continue
    checks.append({
        "property_id": pid,
        "quick_cmd": f"./check {pid} quick",
        "thorough_cmd": f"./check {pid} thorough",
        "evidence_file": f"evidence/{pid}.json",
        "replay_cmd_template": "./check --replay {path}",
        "engine": "gengolint",
        "level_claimed": {"category": "other", "text": m["level_text"], "design_ref": m.get("design_ref", f"DESIGN.md section 3, {pid}")},
        "level_note": m["level_note"],
        "technique": m["technique"],
    })
manifest = {
    "version": 1,
    "setup_cmd": "./build.sh && ./tools/warm.sh",
    "hooks": {
        "guard": "verif",
        "enable": "none needed: the checks read /repo's sources (go/packages + go/types + go/cfg); no hook or instrumentation is compiled into the repository",
        "baseline_off_cmd": "cd /repo && GOFLAGS=-mod=mod go test -json -vet=off -count=1 -timeout 25m ./...",
        "source_commits": [],
        "add_only": True,
    },
    "engines": [{
        "name": "gengolint",
        "path": "checker/",
        "serves_properties": [c["property_id"] for c in checks],
        "kind_free_text": "repository-specific static analyser (Go, golang.org/x/tools v0.50.0: go/packages, go/types, go/cfg): path rules on control-flow graphs, who-may-call and provenance rules on the type-checked AST, table/sibling agreement, constant-template analysis; mutant catalogue applied through packages.Config.Overlay in the thorough tier",
    }],
    "checks": checks,
    "not_applicable": na,
    "notes": "Technique family: static analysis only. Every check re-loads and re-type-checks /repo's working tree on each run and never executes repository code. All claims are level 'other': structural necessary conditions decided over all paths/sites; the behavioural clauses that are not decided are listed per property in DESIGN.md and in each evidence file's coverage.explanation. Genuine defects found are either repaired by 'fix:' commits in /repo or listed in known_findings.json.",
}
json.dump(manifest, open(os.path.join(ROOT, "MANIFEST.json"), "w"), indent=1)
print("claimed:", [c["property_id"] for c in checks], "n/a:", len(na))
